//! The real iceoryx2 objects of one execution behind an object-safe facade (`Real`), generic over
//! the service variant (local / ipc) and the payload kind (u64 / [u64]). Nothing in here judges
//! anything: every method performs exactly the API calls named in its doc comment and returns
//! what the API returned, reduced to plain data.

use std::cell::RefCell;
use std::rc::Rc;
use std::fmt::Debug;
use std::sync::atomic::{AtomicU64, Ordering};

use iceoryx2::port::publisher::{Publisher, PublisherCreateError};
use iceoryx2::port::subscriber::{Subscriber, SubscriberCreateError};
use iceoryx2::port::update_connections::{ConnectionFailure, UpdateConnections};
use iceoryx2::port::{BackpressureAction, BackpressureInfo, LoanError, ReceiveError, SendError};
use iceoryx2::prelude::*;
use iceoryx2::sample::Sample;
use iceoryx2::sample_mut::SampleMut;
use iceoryx2::service::builder::publish_subscribe::{Builder, PublishSubscribeCreateError};
use iceoryx2::service::port_factory::publish_subscribe::PortFactory;
use iceoryx2::service::port_factory::PortFactory as _;
use iceoryx2::service::port_factory::publisher::PortFactoryPublisher;

/// maximal slice length of the slice payload kind (Static allocation strategy)
pub const MAX_SLICE_LEN: usize = 3;

#[derive(Clone, Copy, Debug, PartialEq, Eq)]
pub enum RStrategy {
    /// BackpressureStrategy::DiscardData, no handler (try_send)
    Discard,
    /// DiscardData + handler that answers FollowBackpressureyStrategy
    FollowDiscard,
    /// RetryUntilDelivered + handler: Retry while retries < 2, then DiscardData
    RetryThenDiscard,
    /// RetryUntilDelivered + handler: Retry while retries < 1, then DiscardDataAndFail
    RetryThenFail,
    /// RetryUntilDelivered + handler that lets the blocking subscriber receive (and drop) one sample
    /// and answers Retry; DiscardData when that subscriber cannot receive anything
    RetryConsume,
}

#[derive(Clone, Debug)]
pub struct ServiceSettings {
    pub max_publishers: usize,
    pub max_subscribers: usize,
    pub buffer: usize,
    pub history: usize,
    pub borrowed: usize,
    pub overflow: bool,
    pub loans: usize,
    pub strategy: RStrategy,
}

#[derive(Clone, Debug, PartialEq, Eq)]
pub struct Recv {
    pub origin: u128,
    pub header_publisher: u128,
    pub words: Vec<u64>,
    pub user_header: u64,
}

/// one invocation of a backpressure handler
#[derive(Clone, Debug)]
pub struct HandlerCall {
    pub sender: u128,
    pub receiver: u128,
    pub retries: u64,
    /// RetryConsume: what the receive of the blocking subscriber inside the handler returned
    pub consumed: Option<Result<Option<Recv>, ReceiveError>>,
}

type ConsumeFn = Rc<dyn Fn() -> Result<Option<Recv>, ReceiveError>>;

thread_local! {
    static HANDLER_LOG: RefCell<Vec<HandlerCall>> = const { RefCell::new(Vec::new()) };
    /// subscriber id -> "receive one sample, read it, drop it" (used by the RetryConsume handler)
    static SUB_REGISTRY: RefCell<Vec<(u128, ConsumeFn)>> = const { RefCell::new(Vec::new()) };
}

pub fn take_handler_log() -> Vec<HandlerCall> {
    HANDLER_LOG.with(|l| std::mem::take(&mut *l.borrow_mut()))
}

fn unregister(id: u128) {
    SUB_REGISTRY.with(|r| r.borrow_mut().retain(|e| e.0 != id));
}

static COUNTER: AtomicU64 = AtomicU64::new(0);

// ------------------------------------------------------------------------------------------
// service variant

pub enum NodeHandle<S: Service + 'static> {
    PerProcess(&'static Node<S>),
    PerExecution(Box<Node<S>>),
}

impl<S: Service + 'static> NodeHandle<S> {
    fn get(&self) -> &Node<S> {
        match self {
            NodeHandle::PerProcess(n) => n,
            NodeHandle::PerExecution(n) => n,
        }
    }
}

pub trait Variant: Service + 'static {
    fn node() -> Result<NodeHandle<Self>, String>;
}

thread_local! {
    static LOCAL_NODE: RefCell<Option<&'static Node<local::Service>>> = const { RefCell::new(None) };
}

impl Variant for local::Service {
    /// process-local services leave nothing behind: one node per worker process
    fn node() -> Result<NodeHandle<Self>, String> {
        LOCAL_NODE.with(|c| {
            let mut c = c.borrow_mut();
            if c.is_none() {
                let n = NodeBuilder::new().create::<local::Service>().map_err(|e| format!("node creation failed: {e:?}"))?;
                *c = Some(Box::leak(Box::new(n)));
            }
            Ok(NodeHandle::PerProcess(c.unwrap()))
        })
    }
}

impl Variant for ipc::Service {
    /// inter-process services own files and shared memory: one node per execution, with a
    /// per-process resource prefix, dropped in `finish`
    fn node() -> Result<NodeHandle<Self>, String> {
        let mut config = Config::default();
        config.global.prefix =
            FileName::new(format!("hps{}_", std::process::id()).as_bytes()).map_err(|e| format!("prefix: {e:?}"))?;
        let n = NodeBuilder::new().config(&config).create::<ipc::Service>().map_err(|e| format!("node creation failed: {e:?}"))?;
        Ok(NodeHandle::PerExecution(Box::new(n)))
    }
}

// ------------------------------------------------------------------------------------------
// payload kind

pub trait Kind: 'static {
    type P: ?Sized + IceoryxSend + Debug + 'static;
    fn create_service<S: Service>(b: Builder<Self::P, u64, S>) -> Result<PortFactory<S, Self::P, u64>, PublishSubscribeCreateError>;
    fn tune_publisher<'a, S: Service>(b: PortFactoryPublisher<'a, S, Self::P, u64>) -> PortFactoryPublisher<'a, S, Self::P, u64>;
    /// `loan()` / `loan_slice(len)`: default-initialised payload
    fn loan<S: Service>(p: &Publisher<S, Self::P, u64>, len: usize) -> Result<SampleMut<S, Self::P, u64>, LoanError>;
    fn write<S: Service>(s: &mut SampleMut<S, Self::P, u64>, w: &[u64]);
    fn words_mut<S: Service>(s: &SampleMut<S, Self::P, u64>) -> Vec<u64>;
    fn addr_mut<S: Service>(s: &SampleMut<S, Self::P, u64>) -> usize;
    fn words<S: Service>(s: &Sample<S, Self::P, u64>) -> Vec<u64>;
    /// with `via_loan`: loan_uninit + write + send (payload address visible, user header set);
    /// otherwise the `send_copy` API where the kind has one
    fn send_copy<S: Service>(p: &Publisher<S, Self::P, u64>, w: &[u64], uh: u64, via_loan: bool) -> (Result<usize, SendError>, Option<usize>, u64);
    fn receive<S: Service>(s: &Subscriber<S, Self::P, u64>) -> Result<Option<Sample<S, Self::P, u64>>, ReceiveError>;
}

pub struct KU64;
pub struct KWide;

/// one word of payload in a 64-byte aligned chunk: the data segment has to absorb the alignment of
/// its first chunk without losing a chunk
#[derive(Debug, Clone, Copy, Default, ZeroCopySend)]
#[repr(C)]
#[repr(align(64))]
pub struct Wide {
    pub v: u64,
}
pub struct KSlice;

impl Kind for KU64 {
    type P = u64;
    fn create_service<S: Service>(b: Builder<u64, u64, S>) -> Result<PortFactory<S, u64, u64>, PublishSubscribeCreateError> {
        b.create()
    }
    fn tune_publisher<'a, S: Service>(b: PortFactoryPublisher<'a, S, u64, u64>) -> PortFactoryPublisher<'a, S, u64, u64> {
        b
    }
    fn loan<S: Service>(p: &Publisher<S, u64, u64>, _len: usize) -> Result<SampleMut<S, u64, u64>, LoanError> {
        p.loan()
    }
    fn write<S: Service>(s: &mut SampleMut<S, u64, u64>, w: &[u64]) {
        *s.payload_mut() = w[0];
    }
    fn words_mut<S: Service>(s: &SampleMut<S, u64, u64>) -> Vec<u64> {
        vec![unsafe { std::ptr::read_volatile(s.payload() as *const u64) }]
    }
    fn addr_mut<S: Service>(s: &SampleMut<S, u64, u64>) -> usize {
        s.payload() as *const u64 as usize
    }
    fn words<S: Service>(s: &Sample<S, u64, u64>) -> Vec<u64> {
        vec![unsafe { std::ptr::read_volatile(s.payload() as *const u64) }]
    }
    fn send_copy<S: Service>(p: &Publisher<S, u64, u64>, w: &[u64], uh: u64, via_loan: bool) -> (Result<usize, SendError>, Option<usize>, u64) {
        if via_loan {
            match p.loan_uninit() {
                Ok(s) => {
                    let mut s = s.write_payload(w[0]);
                    *s.user_header_mut() = uh;
                    let a = s.payload() as *const u64 as usize;
                    (s.send(), Some(a), uh)
                }
                Err(e) => (Err(SendError::LoanError(e)), None, uh),
            }
        } else {
            // the user header of send_copy is the default constructed one
            (p.send_copy(w[0]), None, 0)
        }
    }
    fn receive<S: Service>(s: &Subscriber<S, u64, u64>) -> Result<Option<Sample<S, u64, u64>>, ReceiveError> {
        s.receive()
    }
}

impl Kind for KWide {
    type P = Wide;
    fn create_service<S: Service>(b: Builder<Wide, u64, S>) -> Result<PortFactory<S, Wide, u64>, PublishSubscribeCreateError> {
        b.create()
    }
    fn tune_publisher<'a, S: Service>(b: PortFactoryPublisher<'a, S, Wide, u64>) -> PortFactoryPublisher<'a, S, Wide, u64> {
        b
    }
    fn loan<S: Service>(p: &Publisher<S, Wide, u64>, _len: usize) -> Result<SampleMut<S, Wide, u64>, LoanError> {
        p.loan()
    }
    fn write<S: Service>(s: &mut SampleMut<S, Wide, u64>, w: &[u64]) {
        s.payload_mut().v = w[0];
    }
    fn words_mut<S: Service>(s: &SampleMut<S, Wide, u64>) -> Vec<u64> {
        vec![unsafe { std::ptr::read_volatile(&s.payload().v as *const u64) }]
    }
    fn addr_mut<S: Service>(s: &SampleMut<S, Wide, u64>) -> usize {
        s.payload() as *const Wide as usize
    }
    fn words<S: Service>(s: &Sample<S, Wide, u64>) -> Vec<u64> {
        vec![unsafe { std::ptr::read_volatile(&s.payload().v as *const u64) }]
    }
    fn send_copy<S: Service>(p: &Publisher<S, Wide, u64>, w: &[u64], uh: u64, via_loan: bool) -> (Result<usize, SendError>, Option<usize>, u64) {
        if via_loan {
            match p.loan_uninit() {
                Ok(s) => {
                    let mut s = s.write_payload(Wide { v: w[0] });
                    *s.user_header_mut() = uh;
                    let a = s.payload() as *const Wide as usize;
                    (s.send(), Some(a), uh)
                }
                Err(e) => (Err(SendError::LoanError(e)), None, uh),
            }
        } else {
            // the user header of send_copy is the default constructed one
            (p.send_copy(Wide { v: w[0] }), None, 0)
        }
    }
    fn receive<S: Service>(s: &Subscriber<S, Wide, u64>) -> Result<Option<Sample<S, Wide, u64>>, ReceiveError> {
        s.receive()
    }
}

impl Kind for KSlice {
    type P = [u64];
    fn create_service<S: Service>(b: Builder<[u64], u64, S>) -> Result<PortFactory<S, [u64], u64>, PublishSubscribeCreateError> {
        b.create()
    }
    fn tune_publisher<'a, S: Service>(b: PortFactoryPublisher<'a, S, [u64], u64>) -> PortFactoryPublisher<'a, S, [u64], u64> {
        b.initial_max_slice_len(MAX_SLICE_LEN).allocation_strategy(AllocationStrategy::Static)
    }
    fn loan<S: Service>(p: &Publisher<S, [u64], u64>, len: usize) -> Result<SampleMut<S, [u64], u64>, LoanError> {
        p.loan_slice(len)
    }
    fn write<S: Service>(s: &mut SampleMut<S, [u64], u64>, w: &[u64]) {
        let p = s.payload_mut();
        for (d, v) in p.iter_mut().zip(w.iter()) {
            *d = *v;
        }
    }
    fn words_mut<S: Service>(s: &SampleMut<S, [u64], u64>) -> Vec<u64> {
        s.payload().iter().map(|w| unsafe { std::ptr::read_volatile(w as *const u64) }).collect()
    }
    fn addr_mut<S: Service>(s: &SampleMut<S, [u64], u64>) -> usize {
        s.payload().as_ptr() as usize
    }
    fn words<S: Service>(s: &Sample<S, [u64], u64>) -> Vec<u64> {
        s.payload().iter().map(|w| unsafe { std::ptr::read_volatile(w as *const u64) }).collect()
    }
    fn send_copy<S: Service>(p: &Publisher<S, [u64], u64>, w: &[u64], uh: u64, _via_loan: bool) -> (Result<usize, SendError>, Option<usize>, u64) {
        // slices have no send_copy: loan_slice_uninit + write_from_fn + send
        match p.loan_slice_uninit(w.len()) {
            Ok(s) => {
                let mut s = s.write_from_fn(|k| w[k]);
                *s.user_header_mut() = uh;
                let a = s.payload().as_ptr() as usize;
                (s.send(), Some(a), uh)
            }
            Err(e) => (Err(SendError::LoanError(e)), None, uh),
        }
    }
    fn receive<S: Service>(s: &Subscriber<S, [u64], u64>) -> Result<Option<Sample<S, [u64], u64>>, ReceiveError> {
        s.receive()
    }
}

// ------------------------------------------------------------------------------------------

pub trait Real {
    /// publisher_builder().max_loaned_samples().backpressure_strategy()[.set_backpressure_handler()].create()
    fn create_pub(&mut self, slot: usize) -> Result<u128, PublisherCreateError>;
    /// the same builder chain once more; a publisher that does get created is dropped at once
    fn create_pub_extra(&mut self) -> Result<(), PublisherCreateError>;
    /// drops the Publisher; its unsent loans stay alive in the zombie list
    fn drop_pub(&mut self, slot: usize);
    /// subscriber_builder()[.buffer_size()][.history_request()].create(); returns (id, buffer_size())
    fn create_sub(&mut self, slot: usize, buffer: Option<usize>, hreq: Option<usize>) -> Result<(u128, usize), SubscriberCreateError>;
    fn create_sub_extra(&mut self, buffer: Option<usize>, hreq: Option<usize>) -> Result<(), SubscriberCreateError>;
    /// drops the Subscriber; the samples it handed out stay alive in the orphan list
    fn drop_sub(&mut self, slot: usize);
    /// loan()/loan_slice(len), then payload_mut() and user_header_mut() are written; returns the payload address
    fn loan(&mut self, slot: usize, words: &[u64], uh: u64) -> Result<usize, LoanError>;
    /// loans until the first error, drops all of them again; (addresses obtained, the error)
    fn probe_loans(&mut self, slot: usize, limit: usize) -> (Vec<usize>, Option<LoanError>);
    fn send(&mut self, slot: usize, l: usize) -> Result<usize, SendError>;
    fn drop_loan(&mut self, slot: usize, l: usize);
    fn read_loan(&self, slot: usize, l: usize) -> (Vec<u64>, u64);
    fn send_copy(&mut self, slot: usize, words: &[u64], uh: u64, via_loan: bool) -> (Result<usize, SendError>, Option<usize>, u64);
    /// receive(); a sample is kept in the held list of the subscriber
    fn receive(&mut self, slot: usize) -> Result<Option<Recv>, ReceiveError>;
    fn read_sample(&self, slot: usize, k: usize) -> (Vec<u64>, u64);
    fn drop_sample(&mut self, slot: usize, k: usize);
    fn update_pub(&mut self, slot: usize) -> Result<(), ConnectionFailure>;
    fn update_sub(&mut self, slot: usize) -> Result<(), ConnectionFailure>;
    fn has_samples(&mut self, slot: usize) -> Result<bool, ConnectionFailure>;
    fn read_orphan(&self, k: usize) -> (Vec<u64>, u64);
    fn drop_orphan(&mut self, k: usize);
    fn read_zombie(&self, k: usize) -> (Vec<u64>, u64);
    fn send_zombie(&mut self, k: usize) -> Result<usize, SendError>;
    fn drop_zombie(&mut self, k: usize);
    /// drops samples, loans, ports, the service (in this order), creates a service of the same
    /// name with other settings, sends one sample through it and drops everything
    fn finish(self: Box<Self>) -> Result<(), String>;
}

struct PubR<S: Service, K: Kind> {
    loans: Vec<SampleMut<S, K::P, u64>>,
    port: Publisher<S, K::P, u64>,
}

struct SubR<S: Service, K: Kind> {
    held: Vec<Sample<S, K::P, u64>>,
    port: Rc<Subscriber<S, K::P, u64>>,
}

/// field order = drop order: samples and loans first, then ports, service, node
pub struct World<S: Variant, K: Kind> {
    orphans: Vec<Sample<S, K::P, u64>>,
    zombies: Vec<SampleMut<S, K::P, u64>>,
    subs: Vec<Option<SubR<S, K>>>,
    pubs: Vec<Option<PubR<S, K>>>,
    service: Option<PortFactory<S, K::P, u64>>,
    name: ServiceName,
    settings: ServiceSettings,
    node: NodeHandle<S>,
}

impl<S: Variant, K: Kind> World<S, K> {
    pub fn new(settings: &ServiceSettings) -> Result<Self, String> {
        take_handler_log();
        let node = S::node()?;
        let n = COUNTER.fetch_add(1, Ordering::Relaxed);
        let name: ServiceName =
            format!("hps_{}_{}", std::process::id(), n).as_str().try_into().map_err(|e| format!("service name: {e:?}"))?;
        let b = node
            .get()
            .service_builder(&name)
            .publish_subscribe::<K::P>()
            .user_header::<u64>()
            .max_publishers(settings.max_publishers)
            .max_subscribers(settings.max_subscribers)
            .subscriber_max_buffer_size(settings.buffer)
            .history_size(settings.history)
            .subscriber_max_borrowed_samples(settings.borrowed)
            .enable_safe_overflow(settings.overflow);
        let service = K::create_service(b).map_err(|e| format!("service creation failed: {e:?}"))?;
        let sc = service.static_config();
        if sc.max_publishers() != settings.max_publishers
            || sc.max_subscribers() != settings.max_subscribers
            || sc.subscriber_max_buffer_size() != settings.buffer
            || sc.history_size() != settings.history
            || sc.subscriber_max_borrowed_samples() != settings.borrowed
            || sc.has_safe_overflow() != settings.overflow
        {
            return Err(format!("static config {sc:?} differs from the requested settings {settings:?}"));
        }
        Ok(World {
            orphans: Vec::new(),
            zombies: Vec::new(),
            subs: (0..settings.max_subscribers + 1).map(|_| None).collect(),
            pubs: (0..settings.max_publishers + 1).map(|_| None).collect(),
            service: Some(service),
            name,
            settings: settings.clone(),
            node,
        })
    }

    fn build_pub(&self) -> Result<Publisher<S, K::P, u64>, PublisherCreateError> {
        let b = self.service.as_ref().unwrap().publisher_builder().max_loaned_samples(self.settings.loans);
        let b = K::tune_publisher(b);
        let log = |info: &BackpressureInfo| {
            HANDLER_LOG.with(|l| {
                l.borrow_mut().push(HandlerCall { sender: info.sender_port_id, receiver: info.receiver_port_id, retries: info.retries, consumed: None })
            });
        };
        match self.settings.strategy {
            RStrategy::Discard => b.backpressure_strategy(BackpressureStrategy::DiscardData).create(),
            RStrategy::FollowDiscard => b
                .backpressure_strategy(BackpressureStrategy::DiscardData)
                .set_backpressure_handler(move |info: &BackpressureInfo| {
                    log(info);
                    BackpressureAction::FollowBackpressureyStrategy
                })
                .create(),
            RStrategy::RetryThenDiscard => b
                .backpressure_strategy(BackpressureStrategy::RetryUntilDelivered)
                .set_backpressure_handler(move |info: &BackpressureInfo| {
                    log(info);
                    if info.retries < 2 {
                        BackpressureAction::Retry
                    } else {
                        BackpressureAction::DiscardData
                    }
                })
                .create(),
            RStrategy::RetryThenFail => b
                .backpressure_strategy(BackpressureStrategy::RetryUntilDelivered)
                .set_backpressure_handler(move |info: &BackpressureInfo| {
                    log(info);
                    if info.retries < 1 {
                        BackpressureAction::Retry
                    } else {
                        BackpressureAction::DiscardDataAndFail
                    }
                })
                .create(),
            RStrategy::RetryConsume => b
                .backpressure_strategy(BackpressureStrategy::RetryUntilDelivered)
                .set_backpressure_handler(move |info: &BackpressureInfo| {
                    let f: Option<ConsumeFn> =
                        SUB_REGISTRY.with(|r| r.borrow().iter().find(|e| e.0 == info.receiver_port_id).map(|e| e.1.clone()));
                    let res = match f {
                        Some(f) => f(),
                        None => Ok(None),
                    };
                    let action = if matches!(res, Ok(Some(_))) { BackpressureAction::Retry } else { BackpressureAction::DiscardData };
                    HANDLER_LOG.with(|l| {
                        l.borrow_mut().push(HandlerCall {
                            sender: info.sender_port_id,
                            receiver: info.receiver_port_id,
                            retries: info.retries,
                            consumed: Some(res),
                        })
                    });
                    action
                })
                .create(),
        }
    }

    fn build_sub(&self, buffer: Option<usize>, hreq: Option<usize>) -> Result<Subscriber<S, K::P, u64>, SubscriberCreateError> {
        let mut b = self.service.as_ref().unwrap().subscriber_builder();
        if let Some(v) = buffer {
            b = b.buffer_size(v);
        }
        if let Some(v) = hreq {
            b = b.history_request(v);
        }
        b.create()
    }

    fn unregister_all(&self) {
        for s in self.subs.iter().flatten() {
            unregister(s.port.id().value());
        }
    }

    fn p(&self, slot: usize) -> &PubR<S, K> {
        self.pubs[slot].as_ref().expect("harness bug: publisher slot empty")
    }
    fn pm(&mut self, slot: usize) -> &mut PubR<S, K> {
        self.pubs[slot].as_mut().expect("harness bug: publisher slot empty")
    }
    fn s(&self, slot: usize) -> &SubR<S, K> {
        self.subs[slot].as_ref().expect("harness bug: subscriber slot empty")
    }
    fn sm(&mut self, slot: usize) -> &mut SubR<S, K> {
        self.subs[slot].as_mut().expect("harness bug: subscriber slot empty")
    }
}

fn read_sample<S: Service, K: Kind>(s: &Sample<S, K::P, u64>) -> (Vec<u64>, u64) {
    (K::words(s), unsafe { std::ptr::read_volatile(s.user_header() as *const u64) })
}

fn read_loan<S: Service, K: Kind>(s: &SampleMut<S, K::P, u64>) -> (Vec<u64>, u64) {
    (K::words_mut(s), unsafe { std::ptr::read_volatile(s.user_header() as *const u64) })
}

impl<S: Variant, K: Kind> Drop for World<S, K> {
    fn drop(&mut self) {
        self.unregister_all();
    }
}

impl<S: Variant, K: Kind> Real for World<S, K> {
    fn create_pub(&mut self, slot: usize) -> Result<u128, PublisherCreateError> {
        assert!(self.pubs[slot].is_none(), "harness bug: publisher slot in use");
        let port = self.build_pub()?;
        let id = port.id().value();
        self.pubs[slot] = Some(PubR { loans: Vec::new(), port });
        Ok(id)
    }

    fn create_pub_extra(&mut self) -> Result<(), PublisherCreateError> {
        self.build_pub().map(drop)
    }

    fn drop_pub(&mut self, slot: usize) {
        let PubR { loans, port } = self.pubs[slot].take().expect("harness bug: publisher slot empty");
        drop(port);
        self.zombies.extend(loans);
    }

    fn create_sub(&mut self, slot: usize, buffer: Option<usize>, hreq: Option<usize>) -> Result<(u128, usize), SubscriberCreateError> {
        assert!(self.subs[slot].is_none(), "harness bug: subscriber slot in use");
        let port = Rc::new(self.build_sub(buffer, hreq)?);
        let r = (port.id().value(), port.buffer_size());
        let p2 = port.clone();
        let consume: ConsumeFn = Rc::new(move || match K::receive(&p2)? {
            None => Ok(None),
            Some(smp) => {
                let (words, user_header) = read_sample::<S, K>(&smp);
                Ok(Some(Recv { origin: smp.origin().value(), header_publisher: smp.header().publisher_id().value(), words, user_header }))
            }
        });
        SUB_REGISTRY.with(|reg| reg.borrow_mut().push((r.0, consume)));
        self.subs[slot] = Some(SubR { held: Vec::new(), port });
        Ok(r)
    }

    fn create_sub_extra(&mut self, buffer: Option<usize>, hreq: Option<usize>) -> Result<(), SubscriberCreateError> {
        self.build_sub(buffer, hreq).map(drop)
    }

    fn drop_sub(&mut self, slot: usize) {
        let SubR { held, port } = self.subs[slot].take().expect("harness bug: subscriber slot empty");
        unregister(port.id().value());
        assert!(Rc::strong_count(&port) == 1, "harness bug: subscriber still referenced");
        drop(port);
        self.orphans.extend(held);
    }

    fn loan(&mut self, slot: usize, words: &[u64], uh: u64) -> Result<usize, LoanError> {
        let p = self.pm(slot);
        let mut s = K::loan(&p.port, words.len())?;
        K::write(&mut s, words);
        *s.user_header_mut() = uh;
        let a = K::addr_mut(&s);
        p.loans.push(s);
        Ok(a)
    }

    fn probe_loans(&mut self, slot: usize, limit: usize) -> (Vec<usize>, Option<LoanError>) {
        let p = self.p(slot);
        let mut got = Vec::new();
        let mut addrs = Vec::new();
        let mut err = None;
        while got.len() < limit {
            match K::loan(&p.port, 1) {
                Ok(s) => {
                    addrs.push(K::addr_mut(&s));
                    got.push(s);
                }
                Err(e) => {
                    err = Some(e);
                    break;
                }
            }
        }
        drop(got);
        (addrs, err)
    }

    fn send(&mut self, slot: usize, l: usize) -> Result<usize, SendError> {
        let s = self.pm(slot).loans.remove(l);
        s.send()
    }

    fn drop_loan(&mut self, slot: usize, l: usize) {
        drop(self.pm(slot).loans.remove(l));
    }

    fn read_loan(&self, slot: usize, l: usize) -> (Vec<u64>, u64) {
        read_loan::<S, K>(&self.p(slot).loans[l])
    }

    fn send_copy(&mut self, slot: usize, words: &[u64], uh: u64, via_loan: bool) -> (Result<usize, SendError>, Option<usize>, u64) {
        K::send_copy(&self.p(slot).port, words, uh, via_loan)
    }

    fn receive(&mut self, slot: usize) -> Result<Option<Recv>, ReceiveError> {
        let s = self.sm(slot);
        match K::receive(&s.port)? {
            None => Ok(None),
            Some(smp) => {
                let (words, user_header) = read_sample::<S, K>(&smp);
                let r = Recv { origin: smp.origin().value(), header_publisher: smp.header().publisher_id().value(), words, user_header };
                s.held.push(smp);
                Ok(Some(r))
            }
        }
    }

    fn read_sample(&self, slot: usize, k: usize) -> (Vec<u64>, u64) {
        read_sample::<S, K>(&self.s(slot).held[k])
    }

    fn drop_sample(&mut self, slot: usize, k: usize) {
        drop(self.sm(slot).held.remove(k));
    }

    fn update_pub(&mut self, slot: usize) -> Result<(), ConnectionFailure> {
        self.p(slot).port.update_connections()
    }

    fn update_sub(&mut self, slot: usize) -> Result<(), ConnectionFailure> {
        self.s(slot).port.update_connections()
    }

    fn has_samples(&mut self, slot: usize) -> Result<bool, ConnectionFailure> {
        self.s(slot).port.has_samples()
    }

    fn read_orphan(&self, k: usize) -> (Vec<u64>, u64) {
        read_sample::<S, K>(&self.orphans[k])
    }

    fn drop_orphan(&mut self, k: usize) {
        drop(self.orphans.remove(k));
    }

    fn read_zombie(&self, k: usize) -> (Vec<u64>, u64) {
        read_loan::<S, K>(&self.zombies[k])
    }

    fn send_zombie(&mut self, k: usize) -> Result<usize, SendError> {
        self.zombies.remove(k).send()
    }

    fn drop_zombie(&mut self, k: usize) {
        drop(self.zombies.remove(k));
    }

    fn finish(mut self: Box<Self>) -> Result<(), String> {
        self.orphans.clear();
        self.zombies.clear();
        self.unregister_all();
        self.subs.clear();
        self.pubs.clear();
        self.service = None;
        let st = &self.settings;
        let b = self
            .node
            .get()
            .service_builder(&self.name)
            .publish_subscribe::<K::P>()
            .user_header::<u64>()
            .max_publishers(st.max_publishers + 1)
            .max_subscribers(st.max_subscribers + 1)
            .subscriber_max_buffer_size(st.buffer + 2)
            .history_size(st.history + 1)
            .subscriber_max_borrowed_samples(st.borrowed + 1)
            .enable_safe_overflow(!st.overflow);
        let service = K::create_service(b).map_err(|e| format!("creating the service again under the same name failed: {e:?}"))?;
        let sc = service.static_config();
        if sc.max_publishers() != st.max_publishers + 1 || sc.history_size() != st.history + 1 || sc.has_safe_overflow() == st.overflow {
            return Err(format!("the service created again under the same name has stale settings {sc:?}"));
        }
        let sub = service.subscriber_builder().create().map_err(|e| format!("second service: subscriber: {e:?}"))?;
        let publ = K::tune_publisher(service.publisher_builder()).create().map_err(|e| format!("second service: publisher: {e:?}"))?;
        let (r, _, _) = K::send_copy(&publ, &[0x5eed], 1, false);
        if r != Ok(1) {
            return Err(format!("second service: send returned {r:?}"));
        }
        match K::receive(&sub) {
            Ok(Some(s)) => {
                let w = K::words(&s);
                if w != [0x5eed] {
                    return Err(format!("second service: received {w:x?}"));
                }
            }
            other => return Err(format!("second service: receive returned {:?}", other.map(|o| o.is_some()))),
        }
        Ok(())
    }
}
