//! h_pubsub – E3 harness for the publish-subscribe messaging pattern of iceoryx2.
//!
//! One exploration, three oracle sets (`--prop C01|C02|C08`, default C01):
//!  * C01 delivery: order, content, at-most-once, only the documented loss, recipient count;
//!  * C02 sample lifetime: bytes of held samples / unsent loans never change, a loan never hands
//!    out a chunk that is still referenced, nothing leaks (loan probe after every step, saturation
//!    at the end of every execution);
//!  * C08 limits: sufficiency of the declared limits (loan probe, saturation macro operations,
//!    saturation at the end) and one-too-many probes after every step.
//!
//! An oracle that belongs to another property than the selected one never reports: when the
//! real code and the model disagree there, the execution is ended quietly (the run of the owning
//! property reports it).

mod cfg;
mod cover;
mod model;
mod real;

use iceoryx2::port::publisher::PublisherCreateError;
use iceoryx2::port::subscriber::SubscriberCreateError;
use iceoryx2::port::{LoanError, ReceiveError, SendError};
use iceoryx2::prelude::{ipc, local, set_log_level, LogLevel};
use seqx::{Fail, Harness, Plan, Tier};
use serde::{Deserialize, Serialize};

use cfg::{Cfg, Focus, Payload, Populate, Start, Strategy, Variant};
use model::{HeldM, Model, PubM, RecvExpect, SendExpect, Seq, SubM};
use real::{KSlice, KU64, KWide, RStrategy, Real, Recv, ServiceSettings, World};

#[derive(Clone, Copy, Debug, PartialEq, Eq)]
enum Mode {
    C01,
    C02,
    C08,
}

/// the property an oracle belongs to
#[derive(Clone, Copy, Debug, PartialEq, Eq)]
enum Own {
    C01,
    C02,
    /// a C02 oracle whose evidence rests on the delivery model (what is still in a buffer / the
    /// history): only reported if a control run confirms that delivery agrees with the model
    C02Delivery,
    C08,
    Any,
}

#[derive(Clone, Debug, PartialEq, Eq, Serialize, Deserialize)]
enum Op {
    CreatePub(u8),
    DropPub(u8),
    CreateSub(u8),
    DropSub(u8),
    /// loan + write payload and user header; the SampleMut is kept
    Loan(u8),
    /// send the l-th outstanding loan of publisher i
    Send(u8, u8),
    DropLoan(u8, u8),
    /// send_copy (u64, C01/C08) or loan_uninit + write + send
    SendCopy(u8),
    /// receive; the Sample is kept
    Receive(u8),
    DropSample(u8, u8),
    UpdPub(u8),
    /// update_connections + has_samples
    UpdSub(u8),
    /// drop a sample whose subscriber is already gone
    DropOrphan(u8),
    /// send / drop a loan whose publisher is already gone
    ZombieSend(u8),
    ZombieDrop(u8),
    /// C08: send until every connected subscriber buffer is full
    FillBuffers(u8),
    /// C08: receive until the subscriber holds subscriber_max_borrowed_samples
    BorrowMax(u8),
    /// C08: loan until max_loaned_samples are outstanding
    LoanMax(u8),
}

struct Sys {
    cfg: Cfg,
    mode: Mode,
    /// control run: no probes (used to decide whether a probe caused a divergence)
    control: bool,
    real: Option<Box<dyn Real>>,
    m: Model,
    ops: Vec<Op>,
    /// model and real code disagree in a way the selected property does not judge
    diverged: bool,
    in_finish: bool,
    /// end of a C01 execution: samples of publishers that left before the subscriber opened the
    /// connection are now demanded (during the exploration both behaviours are accepted)
    strict_lost: bool,
}

impl Sys {
    fn real(&mut self) -> &mut dyn Real {
        self.real.as_mut().expect("real world already finished").as_mut()
    }
}

struct H;

macro_rules! flag {
    ($h:expr, $s:expr, $own:expr, $tag:expr, $site:expr, $($arg:tt)*) => {
        {
            let __detail = format!($($arg)*);
            let __site: String = ($site).to_string();
            return $h.flag($s, $own, $tag, &__site, __detail);
        }
    };
}

fn mode() -> Mode {
    match seqx::selected_property() {
        Some("C02") => Mode::C02,
        Some("C08") => Mode::C08,
        _ => Mode::C01,
    }
}

fn settings(c: &Cfg) -> ServiceSettings {
    ServiceSettings {
        max_publishers: c.maxp,
        max_subscribers: c.maxs,
        buffer: c.buf,
        history: c.hist,
        borrowed: c.bor,
        overflow: c.overflow,
        loans: c.loans,
        strategy: match c.strategy {
            Strategy::Discard => RStrategy::Discard,
            Strategy::FollowDiscard => RStrategy::FollowDiscard,
            Strategy::RetryThenDiscard => RStrategy::RetryThenDiscard,
            Strategy::RetryThenFail => RStrategy::RetryThenFail,
            Strategy::RetryConsume => RStrategy::RetryConsume,
        },
    }
}

fn new_world(c: &Cfg) -> Result<Box<dyn Real>, String> {
    let st = settings(c);
    Ok(match (c.variant, c.payload) {
        (Variant::Local, Payload::U64) => Box::new(World::<local::Service, KU64>::new(&st)?),
        (Variant::Local, Payload::Slice) => Box::new(World::<local::Service, KSlice>::new(&st)?),
        (Variant::Local, Payload::Wide) => Box::new(World::<local::Service, KWide>::new(&st)?),
        (Variant::Ipc, Payload::Wide) => Box::new(World::<ipc::Service, KWide>::new(&st)?),
        (Variant::Ipc, Payload::U64) => Box::new(World::<ipc::Service, KU64>::new(&st)?),
        (Variant::Ipc, Payload::Slice) => Box::new(World::<ipc::Service, KSlice>::new(&st)?),
    })
}

fn send_site(c: &Cfg, what: &str) -> String {
    if c.overflow {
        format!("{what} (safe overflow)")
    } else {
        format!("{what} (no overflow, {:?})", c.strategy)
    }
}

impl H {
    /// An oracle failed. Reports it if it belongs to the selected property; otherwise the
    /// execution is ended quietly.
    fn flag(&self, s: &mut Sys, own: Own, tag: &str, site: &str, detail: String) -> Result<(), Fail> {
        if s.control {
            s.diverged = true;
            return Ok(());
        }
        match (own, s.mode) {
            (Own::Any, _) | (Own::C01, Mode::C01) | (Own::C02, Mode::C02) | (Own::C08, Mode::C08) => Err(Fail::new(tag, site.to_string(), detail)),
            (Own::C02Delivery, Mode::C02) => {
                s.diverged = true;
                if !s.in_finish && self.control_agrees(&s.cfg, &s.ops.clone()) {
                    Err(Fail::new(tag, site.to_string(), detail))
                } else {
                    Ok(())
                }
            }
            (Own::C01, Mode::C08) => {
                // a delivery disagreement under C08 is a side effect of the rejected calls iff the same
                // operations without them agree with the model
                s.diverged = true;
                if !s.in_finish && self.control_agrees(&s.cfg, &s.ops.clone()) {
                    Err(Fail::new(
                        "c08-side-effect",
                        format!("{tag} only with limit probes: {site}"),
                        format!("without the rejected calls the same operations agree with the model; with them: {detail}"),
                    ))
                } else {
                    Ok(())
                }
            }
            _ => {
                s.diverged = true;
                Ok(())
            }
        }
    }

    /// Control run: the same operations on a fresh service without any probe, every delivery
    /// observation compared with the model, and at the end every subscriber buffer drained and
    /// compared. True iff real code and model agree throughout.
    fn control_agrees(&self, cfg: &Cfg, ops: &[Op]) -> bool {
        let r = std::panic::catch_unwind(std::panic::AssertUnwindSafe(|| {
            let mut c = match self.build(cfg, true) {
                Ok(c) => c,
                Err(_) => return false,
            };
            let mut ok = !c.diverged;
            for op in ops {
                if !ok {
                    break;
                }
                ok = self.step(&mut c, op).is_ok() && !c.diverged;
            }
            if ok {
                ok = self.drain_and_compare(&mut c).is_ok() && !c.diverged;
            }
            if let Some(r) = c.real.take() {
                let _ = r.finish();
            }
            ok
        }));
        r.unwrap_or(false)
    }

    fn drain_and_compare(&self, c: &mut Sys) -> Result<(), Fail> {
        for j in c.m.alive_subs() {
            self.check_has_samples(c, j, "control")?;
            while !c.diverged && !c.m.s(j).held.is_empty() {
                self.do_drop_sample(c, j, 0)?;
            }
            for _ in 0..64 {
                if c.diverged {
                    return Ok(());
                }
                let done = c.m.recv_expect(&c.cfg, j, false) == RecvExpect::None;
                self.do_receive(c, j)?;
                if done || c.diverged || c.m.s(j).held.is_empty() {
                    break;
                }
                self.do_drop_sample(c, j, 0)?;
            }
        }
        Ok(())
    }

    fn build(&self, cfg: &Cfg, control: bool) -> Result<Sys, Fail> {
        set_log_level(LogLevel::Fatal);
        let real = new_world(cfg).map_err(|e| Fail::new("setup", "new_sys", e))?;
        let mut s = Sys { cfg: cfg.clone(), mode: mode(), control, real: Some(real), m: Model::new(cfg), ops: Vec::new(), diverged: false, in_finish: false, strict_lost: false };
        for op in start_ops(cfg) {
            self.step(&mut s, &op)?;
        }
        // the creates of the prefix do not count against the per-execution cap
        s.m.creates_pub = 0;
        s.m.creates_sub = 0;
        Ok(s)
    }

    // -------------------------------------------------------------------------------------
    // primitives: real call + model + comparison

    fn do_create_pub(&self, s: &mut Sys, i: usize) -> Result<(), Fail> {
        match s.real().create_pub(i) {
            Ok(id) => {
                let inst = s.m.next_inst;
                s.m.next_inst += 1;
                s.m.pubs[i] = Some(PubM { inst, id, loans: Vec::new(), history: Default::default() });
                s.m.pub_ids.insert(id, inst);
                s.m.creates_pub += 1;
                let cfg = s.cfg.clone();
                s.m.pub_update(&cfg, i);
                Ok(())
            }
            Err(e) => flag!(self, s, Own::C08, "c08-recovery", "CreatePub within max_publishers", "publisher creation failed with {e:?} although only {} of {} publishers exist", s.m.alive_pubs().len(), s.cfg.maxp),
        }
    }

    fn do_create_sub(&self, s: &mut Sys, j: usize, default_qos: bool) -> Result<(), Fail> {
        let (ab, ah) = if default_qos { (None, None) } else { s.cfg.sub_args(j) };
        let (rb, rh) = if default_qos { (s.cfg.buf, s.cfg.hist.min(s.cfg.buf)) } else { s.cfg.sub_resolved(j) };
        match s.real().create_sub(j, ab, ah) {
            Ok((id, bufsize)) => {
                let inst = s.m.next_inst;
                s.m.next_inst += 1;
                s.m.subs[j] = Some(SubM { inst, id, buf: rb, hreq: rh, held: Vec::new() });
                s.m.sub_ids.insert(id, inst);
                s.m.creates_sub += 1;
                s.m.sub_update(j, s.mode == Mode::C01);
                if bufsize != rb {
                    flag!(self, s, Own::C01, "c01-subscriber-qos", "Subscriber::buffer_size", "buffer_size() is {bufsize}, requested {ab:?} with service maximum {}", s.cfg.buf);
                }
                Ok(())
            }
            Err(e) => flag!(self, s, Own::C08, "c08-recovery", "CreateSub within max_subscribers", "subscriber creation (buffer {ab:?}, history request {ah:?}) failed with {e:?} although only {} of {} subscribers exist", s.m.alive_subs().len(), s.cfg.maxs),
        }
    }

    fn do_drop_pub(&self, s: &mut Sys, i: usize) -> Result<(), Fail> {
        s.real().drop_pub(i);
        let p = s.m.pubs[i].take().expect("model: publisher slot empty");
        s.m.zombies.extend(p.loans.iter().copied());
        let follow_reality = s.mode != Mode::C01;
        for c in s.m.conns.iter_mut().filter(|c| c.pub_inst == p.inst) {
            c.pub_alive = false;
            c.pub_side = false;
        }
        if follow_reality {
            // what a subscriber has not opened before the publisher left is never opened (see C01 run)
            s.m.conns.retain(|c| !(c.pub_inst == p.inst && !c.sub_side));
        }
        s.m.gc_conns();
        Ok(())
    }

    fn do_drop_sub(&self, s: &mut Sys, j: usize) -> Result<(), Fail> {
        s.real().drop_sub(j);
        let sub = s.m.subs[j].take().expect("model: subscriber slot empty");
        s.m.orphans.extend(sub.held.iter().cloned());
        for c in s.m.conns.iter_mut().filter(|c| c.sub_inst == sub.inst) {
            c.sub_alive = false;
            c.sub_side = false;
            c.fifo.clear();
        }
        s.m.gc_conns();
        Ok(())
    }

    fn loan_failure(&self, s: &mut Sys, e: LoanError, site: &str, detail: String) -> Result<(), Fail> {
        match (s.mode, e) {
            (Mode::C02, _) => flag!(self, s, Own::C02, "c02-leak", site.to_string(), "{detail}: {e:?}"),
            (Mode::C08, LoanError::OutOfMemory) => flag!(self, s, Own::C08, "c08-loan-oom", site.to_string(), "{detail}: {e:?}"),
            (Mode::C08, _) => flag!(self, s, Own::C08, "c08-recovery", site.to_string(), "{detail}: {e:?}"),
            (Mode::C01, _) => {
                s.diverged = true;
                Ok(())
            }
        }
    }

    /// C02: a freshly handed out payload address must not belong to a chunk that still has a holder
    fn check_addr(&self, s: &mut Sys, pub_inst: u32, addr: usize, what: &str) -> Result<(), Fail> {
        if s.mode != Mode::C02 {
            return Ok(());
        }
        let clash: Option<(Seq, &'static str)> = s
            .m
            .seqs
            .iter()
            .filter(|(_, info)| info.pub_inst == pub_inst && info.addr == Some(addr))
            .find_map(|(&q, _)| s.m.holders(q).first().map(|h| (q, *h)));
        if let Some((q, holder)) = clash {
            let own = if holder == "undelivered buffer entry" || holder == "history" { Own::C02Delivery } else { Own::C02 };
            flag!(self, s, own, "c02-chunk-reused", format!("chunk still referenced by: {holder}"), "the payload address handed out by a {what} is the one of sample #{q}, which is still referenced ({:?})", s.m.holders(q));
        }
        Ok(())
    }

    fn do_loan(&self, s: &mut Sys, i: usize, site: &str) -> Result<(), Fail> {
        let inst = s.m.p(i).inst;
        let cfg = s.cfg.clone();
        let seq = s.m.new_seq(&cfg, inst, None);
        let info = s.m.seqs[&seq].clone();
        match s.real().loan(i, &info.words, info.uh) {
            Ok(addr) => {
                s.m.seqs.remove(&seq);
                self.check_addr(s, inst, addr, "loan")?;
                if s.diverged {
                    return Ok(());
                }
                s.m.seqs.insert(seq, model::SeqInfo { addr: Some(addr), ..info });
                s.m.pubs[i].as_mut().unwrap().loans.push(seq);
                Ok(())
            }
            Err(e) => {
                s.m.seqs.remove(&seq);
                let n = s.m.p(i).loans.len();
                self.loan_failure(s, e, site, format!("loan failed with {n} of {} loans outstanding", cfg.loans))
            }
        }
    }

    fn check_send(&self, s: &mut Sys, i: usize, e: &SendExpect, r: Result<usize, SendError>, what: &str) -> Result<(), Fail> {
        let pid = s.m.p(i).id;
        let mut log: Vec<(u128, u64)> = real::take_handler_log().into_iter().filter(|x| x.sender == pid).map(|x| (x.receiver, x.retries)).collect();
        let expected = if e.unable_to_deliver { Err(SendError::UnableToDeliver) } else { Ok(e.recipients) };
        if r != expected {
            flag!(self, s, Own::C01, "c01-recipient-count", send_site(&s.cfg, what), "send returned {r:?}, the model expects {expected:?}");
        }
        let mut want = e.handler_calls.clone();
        log.sort();
        want.sort();
        if log != want {
            let shape = |v: &Vec<(u128, u64)>| v.iter().map(|x| x.1).collect::<Vec<_>>();
            flag!(self, s, Own::C01, "c01-backpressure-handler", send_site(&s.cfg, what), "backpressure handler calls (retries per call) {:?}, expected {:?}", shape(&log), shape(&want));
        }
        Ok(())
    }

    /// model side of a send (after the real call) for both kinds of strategies
    fn judge_send(&self, s: &mut Sys, i: usize, seq: Seq, r: Result<usize, SendError>, what: &str) -> Result<(), Fail> {
        let cfg = s.cfg.clone();
        if cfg.strategy != Strategy::RetryConsume || cfg.overflow {
            let e = s.m.send(&cfg, i, seq);
            return self.check_send(s, i, &e, r, what);
        }
        // RetryUntilDelivered with a handler that lets the blocking subscriber consume: the send blocks
        // until that subscriber has made room; what it consumed meanwhile is in the handler log
        let pid = s.m.p(i).id;
        let pinst = s.m.p(i).inst;
        let log: Vec<real::HandlerCall> = real::take_handler_log().into_iter().filter(|x| x.sender == pid).collect();
        s.m.begin_send(&cfg, i, seq);
        let mut recipients = 0;
        let mut used = 0;
        for j in s.m.alive_subs() {
            let (sinst, sid) = (s.m.s(j).inst, s.m.s(j).id);
            let k = s.m.conn_idx(pinst, sinst).expect("model: connection missing after pub_update");
            if Model::enqueue(&mut s.m.conns[k], seq, false) {
                recipients += 1;
                continue;
            }
            if !s.m.conns[k].sub_side {
                continue;
            }
            let calls: Vec<&real::HandlerCall> = log.iter().filter(|c| c.receiver == sid).collect();
            let mut n = 0;
            loop {
                let Some(call) = calls.get(n) else {
                    flag!(self, s, Own::C01, "c01-backpressure-handler", send_site(&s.cfg, what), "the buffer of a subscriber is full but the backpressure handler was called only {n} times for it: the send did not block until delivery");
                };
                used += 1;
                if call.retries != n as u64 {
                    flag!(self, s, Own::C01, "c01-backpressure-handler", send_site(&s.cfg, what), "retries of the {n}-th handler call is {}", call.retries);
                }
                let consumed = call.consumed.clone().unwrap_or(Ok(None));
                let made_progress = matches!(consumed, Ok(Some(_)));
                self.judge_receive(s, j, consumed, false)?;
                if s.diverged {
                    return Ok(());
                }
                n += 1;
                let k = s.m.conn_idx(pinst, sinst).expect("model: connection vanished");
                if !made_progress {
                    // the handler answered DiscardData: documented loss
                    break;
                }
                if Model::enqueue(&mut s.m.conns[k], seq, false) {
                    recipients += 1;
                    break;
                }
            }
            if calls.len() != n {
                flag!(self, s, Own::C01, "c01-backpressure-handler", send_site(&s.cfg, what), "{} handler calls for one subscriber, the model expects {n}", calls.len());
            }
        }
        if used != log.len() {
            flag!(self, s, Own::C01, "c01-backpressure-handler", send_site(&s.cfg, what), "{} handler calls, only {used} of them for subscribers with a full buffer", log.len());
        }
        if r != Ok(recipients) {
            flag!(self, s, Own::C01, "c01-recipient-count", send_site(&s.cfg, what), "send returned {r:?}, the model expects Ok({recipients})");
        }
        Ok(())
    }

    fn do_send(&self, s: &mut Sys, i: usize, l: usize) -> Result<(), Fail> {
        let seq = s.m.pubs[i].as_mut().unwrap().loans.remove(l);
        let r = s.real().send(i, l);
        self.judge_send(s, i, seq, r, "send")
    }

    fn do_send_copy(&self, s: &mut Sys, i: usize, site: &str) -> Result<(), Fail> {
        let cfg = s.cfg.clone();
        let inst = s.m.p(i).inst;
        let seq = s.m.new_seq(&cfg, inst, None);
        let info = s.m.seqs[&seq].clone();
        let via_loan = s.mode == Mode::C02;
        let (r, addr, uh_used) = s.real().send_copy(i, &info.words, info.uh, via_loan);
        if let Err(SendError::LoanError(e)) = r {
            s.m.seqs.remove(&seq);
            let n = s.m.p(i).loans.len();
            return self.loan_failure(s, e, site, format!("the loan of a send failed with {n} of {} loans outstanding", cfg.loans));
        }
        s.m.seqs.remove(&seq);
        if let Some(a) = addr {
            self.check_addr(s, inst, a, "loan")?;
            if s.diverged {
                return Ok(());
            }
        }
        s.m.seqs.insert(seq, model::SeqInfo { addr, uh: uh_used, ..info });
        self.judge_send(s, i, seq, r, "send_copy")
    }

    fn do_receive(&self, s: &mut Sys, j: usize) -> Result<(), Fail> {
        let r = s.real().receive(j);
        self.judge_receive(s, j, r, true)
    }

    /// compares the result of a receive of subscriber j with the model; `hold`: the sample is kept
    /// (otherwise it was dropped right away by whoever received it)
    fn judge_receive(&self, s: &mut Sys, j: usize, r: Result<Option<Recv>, ReceiveError>, hold: bool) -> Result<(), Fail> {
        let keep = s.mode == Mode::C01;
        let cfg = s.cfg.clone();
        s.m.sub_update(j, keep);
        let exp = s.m.recv_expect(&cfg, j, s.strict_lost);
        match r {
            Err(ReceiveError::ExceedsMaxBorrows) => {
                if exp != RecvExpect::ExceedsMaxBorrows {
                    flag!(self, s, Own::C08, "c08-recovery", "Receive within subscriber_max_borrowed_samples", "receive failed with ExceedsMaxBorrows, the model expects {exp:?}; held {}", s.m.total_held(j));
                }
                Ok(())
            }
            Err(e) => flag!(self, s, Own::Any, "unexpected-error", "receive", "receive failed with {e:?}"),
            Ok(None) => match exp {
                RecvExpect::None => Ok(()),
                RecvExpect::ExceedsMaxBorrows => {
                    flag!(self, s, Own::C08, "c08-limit-error", "Receive beyond subscriber_max_borrowed_samples returned None", "samples are pending, all connections are at the borrow limit, receive returned None instead of ExceedsMaxBorrows")
                }
                RecvExpect::Some(cand) => {
                    let never_opened = cand.iter().all(|&k| !s.m.conns[k].sub_side && !s.m.conns[k].pub_alive);
                    let site = if never_opened { "publisher dropped before the subscriber updated its connections" } else { "receive returned nothing" };
                    let pending: Vec<Vec<Seq>> = cand.iter().map(|&k| s.m.conns[k].fifo.iter().copied().collect()).collect();
                    flag!(self, s, Own::C01, "c01-lost-sample", site, "receive returned None although samples {pending:?} were sent to this subscriber while it was registered (reported as delivered) and were never received")
                }
            },
            Ok(Some(rv)) => self.classify(s, j, &exp, &rv, hold),
        }
    }

    fn classify(&self, s: &mut Sys, j: usize, exp: &RecvExpect, rv: &Recv, hold: bool) -> Result<(), Fail> {
        let sinst = s.m.s(j).inst;
        let Some(&pinst) = s.m.pub_ids.get(&rv.origin) else {
            flag!(self, s, Own::C01, "c01-origin", "receive: origin", "origin() is not the id of any publisher of this service");
        };
        if rv.header_publisher != rv.origin {
            flag!(self, s, Own::C01, "c01-origin", "receive: header", "header().publisher_id() differs from origin()");
        }
        let Some((seq, winst)) = model::decode_word0(rv.words[0]) else {
            flag!(self, s, Own::C01, "c01-content", "receive: payload", "payload {:x?} was never written by any publisher", rv.words);
        };
        if winst != (pinst & 0xff) {
            flag!(self, s, Own::C01, "c01-origin", "receive: payload of another publisher", "payload {:x?} was written by publisher instance {winst}, origin() names instance {pinst}", rv.words);
        }
        let Some(k) = s.m.conn_idx(pinst, sinst) else {
            flag!(self, s, Own::C01, "c01-unentitled", "receive: no connection", "sample #{seq} of a publisher this subscriber is not connected to");
        };
        let c = &s.m.conns[k];
        let fifo: Vec<Seq> = c.fifo.iter().copied().collect();
        if fifo.first() != Some(&seq) {
            if fifo.contains(&seq) {
                flag!(self, s, Own::C01, "c01-skipped", send_site(&s.cfg, "receive"), "received #{seq} while {fifo:?} are pending in send order: the samples before it were skipped");
            } else if c.received.contains(&seq) {
                flag!(self, s, Own::C01, "c01-duplicate", send_site(&s.cfg, "receive"), "sample #{seq} was received twice (pending {fifo:?})");
            } else if c.evicted.contains(&seq) {
                flag!(self, s, Own::C01, "c01-unentitled", send_site(&s.cfg, "receive: evicted sample"), "sample #{seq} should have been evicted (the newest buffer-size samples remain), pending {fifo:?}");
            } else {
                flag!(self, s, Own::C01, "c01-unentitled", send_site(&s.cfg, "receive: never delivered"), "sample #{seq} was never delivered to this pair (pending {fifo:?})");
            }
        }
        let info = match s.m.seqs.get(&seq) {
            Some(i) => i.clone(),
            None => {
                flag!(self, s, Own::Any, "harness-bug", "classify", "pending sample #{seq} unknown to the model");
            }
        };
        if rv.words != info.words || rv.user_header != info.uh {
            flag!(self, s, Own::C01, "c01-content", "receive: payload differs from what was written", "sample #{seq}: received {:x?} / user header {:x}, written {:x?} / {:x}", rv.words, rv.user_header, info.words, info.uh);
        }
        let never_opened = !c.sub_side && !c.pub_alive && c.borrowed < s.cfg.bor;
        let allowed = never_opened || matches!(exp, RecvExpect::Some(cand) if cand.contains(&k));
        if !allowed {
            flag!(self, s, Own::C08, "c08-limit-error", "Receive beyond subscriber_max_borrowed_samples accepted", "receive handed out a sample of a connection that already has {} borrowed samples (limit {})", c.borrowed, s.cfg.bor);
        }
        let c = &mut s.m.conns[k];
        c.fifo.pop_front();
        c.received.push(seq);
        if hold {
            c.borrowed += 1;
            s.m.subs[j].as_mut().unwrap().held.push(HeldM { pub_inst: pinst, sub_inst: sinst, seq });
        } else {
            s.m.gc_conns();
        }
        Ok(())
    }

    fn check_has_samples(&self, s: &mut Sys, j: usize, what: &str) -> Result<(), Fail> {
        let keep = s.mode == Mode::C01;
        s.m.sub_update(j, keep);
        let want = s.m.has_samples(j, false);
        let entitled = s.m.has_samples(j, true);
        match s.real().has_samples(j) {
            Ok(got) if got == want || (got && entitled) => Ok(()),
            Ok(got) => {
                flag!(self, s, Own::C01, "c01-has-samples", format!("has_samples {what}"), "has_samples() is {got}, the model has {want}");
            }
            Err(e) => flag!(self, s, Own::Any, "unexpected-error", "has_samples", "has_samples failed with {e:?}"),
        }
    }

    fn release_held(s: &mut Sys, h: &HeldM) {
        if let Some(k) = s.m.conn_idx(h.pub_inst, h.sub_inst) {
            let c = &mut s.m.conns[k];
            c.borrowed = c.borrowed.saturating_sub(1);
        }
        s.m.gc_conns();
    }

    fn do_drop_sample(&self, s: &mut Sys, j: usize, k: usize) -> Result<(), Fail> {
        s.real().drop_sample(j, k);
        let h = s.m.subs[j].as_mut().unwrap().held.remove(k);
        Self::release_held(s, &h);
        Ok(())
    }

    fn do_drop_orphan(&self, s: &mut Sys, k: usize) -> Result<(), Fail> {
        s.real().drop_orphan(k);
        let h = s.m.orphans.remove(k);
        Self::release_held(s, &h);
        Ok(())
    }

    fn do_upd_pub(&self, s: &mut Sys, i: usize) -> Result<(), Fail> {
        if let Err(e) = s.real().update_pub(i) {
            flag!(self, s, Own::Any, "unexpected-error", "Publisher::update_connections", "update_connections failed with {e:?}");
        }
        let cfg = s.cfg.clone();
        s.m.pub_update(&cfg, i);
        Ok(())
    }

    fn do_upd_sub(&self, s: &mut Sys, j: usize) -> Result<(), Fail> {
        if let Err(e) = s.real().update_sub(j) {
            flag!(self, s, Own::Any, "unexpected-error", "Subscriber::update_connections", "update_connections failed with {e:?}");
        }
        s.m.sub_update(j, s.mode == Mode::C01);
        if s.mode == Mode::C01 {
            self.check_has_samples(s, j, "after update_connections")?;
        }
        Ok(())
    }

    fn do_zombie_send(&self, s: &mut Sys, k: usize) -> Result<(), Fail> {
        s.m.zombies.remove(k);
        let r = s.real().send_zombie(k);
        real::take_handler_log();
        if r != Err(SendError::ConnectionBrokenSinceSenderNoLongerExists) {
            flag!(self, s, Own::C01, "c01-send-after-publisher-drop", "send of a loan whose publisher was dropped", "send returned {r:?}, documented: ConnectionBrokenSinceSenderNoLongerExists");
        }
        Ok(())
    }

    fn do_zombie_drop(&self, s: &mut Sys, k: usize) -> Result<(), Fail> {
        s.m.zombies.remove(k);
        s.real().drop_zombie(k);
        Ok(())
    }

    fn all_buffers_full(s: &Sys, i: usize) -> bool {
        let pinst = s.m.p(i).inst;
        s.m.alive_subs().iter().all(|&j| {
            let sub = s.m.s(j);
            s.m.conn_idx(pinst, sub.inst).map(|k| s.m.conns[k].fifo.len() >= sub.buf).unwrap_or(false)
        })
    }

    // -------------------------------------------------------------------------------------

    fn exec(&self, s: &mut Sys, op: &Op) -> Result<(), Fail> {
        match *op {
            Op::CreatePub(i) => self.do_create_pub(s, i as usize),
            Op::DropPub(i) => self.do_drop_pub(s, i as usize),
            Op::CreateSub(j) => self.do_create_sub(s, j as usize, false),
            Op::DropSub(j) => self.do_drop_sub(s, j as usize),
            Op::Loan(i) => self.do_loan(s, i as usize, "Loan within max_loaned_samples"),
            Op::Send(i, l) => self.do_send(s, i as usize, l as usize),
            Op::DropLoan(i, l) => {
                s.real().drop_loan(i as usize, l as usize);
                s.m.pubs[i as usize].as_mut().unwrap().loans.remove(l as usize);
                Ok(())
            }
            Op::SendCopy(i) => self.do_send_copy(s, i as usize, "SendCopy within max_loaned_samples"),
            Op::Receive(j) => {
                self.do_receive(s, j as usize)?;
                if s.mode == Mode::C01 && !s.diverged {
                    self.check_has_samples(s, j as usize, "after receive")?;
                }
                Ok(())
            }
            Op::DropSample(j, k) => self.do_drop_sample(s, j as usize, k as usize),
            Op::UpdPub(i) => self.do_upd_pub(s, i as usize),
            Op::UpdSub(j) => self.do_upd_sub(s, j as usize),
            Op::DropOrphan(k) => self.do_drop_orphan(s, k as usize),
            Op::ZombieSend(k) => self.do_zombie_send(s, k as usize),
            Op::ZombieDrop(k) => self.do_zombie_drop(s, k as usize),
            Op::FillBuffers(i) => {
                for _ in 0..s.cfg.buf + s.cfg.hist + 2 {
                    self.do_send_copy(s, i as usize, "FillBuffers within max_loaned_samples")?;
                    if s.diverged || Self::all_buffers_full(s, i as usize) {
                        break;
                    }
                }
                Ok(())
            }
            Op::BorrowMax(j) => {
                while !s.diverged && s.m.total_held(j as usize) < s.cfg.bor {
                    let before = s.m.total_held(j as usize);
                    self.do_receive(s, j as usize)?;
                    if s.diverged || s.m.total_held(j as usize) == before {
                        break;
                    }
                }
                Ok(())
            }
            Op::LoanMax(i) => {
                while !s.diverged && s.m.p(i as usize).loans.len() < s.cfg.loans {
                    self.do_loan(s, i as usize, "LoanMax within max_loaned_samples")?;
                }
                Ok(())
            }
        }
    }

    fn step(&self, s: &mut Sys, op: &Op) -> Result<(), Fail> {
        self.exec(s, op)?;
        if s.diverged {
            return Ok(());
        }
        if !s.control {
            match s.mode {
                Mode::C01 => {}
                Mode::C02 => self.post_c02(s)?,
                Mode::C08 => self.post_c08(s, matches!(op, Op::CreatePub(_) | Op::DropPub(_) | Op::CreateSub(_) | Op::DropSub(_)))?,
            }
        }
        s.m.gc_seqs();
        Ok(())
    }

    // -------------------------------------------------------------------------------------
    // C02: byte stability, chunk reuse, leak probe

    fn stable(&self, s: &mut Sys, seq: Seq, got: (Vec<u64>, u64), holder: &str) -> Result<(), Fail> {
        let Some(info) = s.m.seqs.get(&seq).cloned() else {
            flag!(self, s, Own::Any, "harness-bug", "stable", "held sample #{seq} unknown to the model");
        };
        if got.0 != info.words || got.1 != info.uh {
            flag!(self, s, Own::C02, "c02-sample-changed", holder.to_string(), "sample #{seq} now reads {:x?} / user header {:x}, it was written as {:x?} / {:x}", got.0, got.1, info.words, info.uh);
        }
        Ok(())
    }

    fn post_c02(&self, s: &mut Sys) -> Result<(), Fail> {
        for j in s.m.alive_subs() {
            for k in 0..s.m.s(j).held.len() {
                let seq = s.m.s(j).held[k].seq;
                let got = s.real().read_sample(j, k);
                self.stable(s, seq, got, "held sample")?;
                if s.diverged {
                    return Ok(());
                }
            }
        }
        for k in 0..s.m.orphans.len() {
            let seq = s.m.orphans[k].seq;
            let got = s.real().read_orphan(k);
            self.stable(s, seq, got, "sample outliving its subscriber")?;
            if s.diverged {
                return Ok(());
            }
        }
        for i in s.m.alive_pubs() {
            for l in 0..s.m.p(i).loans.len() {
                let seq = s.m.p(i).loans[l];
                let got = s.real().read_loan(i, l);
                self.stable(s, seq, got, "unsent loan")?;
                if s.diverged {
                    return Ok(());
                }
            }
        }
        for k in 0..s.m.zombies.len() {
            let seq = s.m.zombies[k];
            let got = s.real().read_zombie(k);
            self.stable(s, seq, got, "unsent loan of a dropped publisher")?;
            if s.diverged {
                return Ok(());
            }
        }
        for i in s.m.alive_pubs() {
            self.loan_probe(s, i, "after every step")?;
            if s.diverged {
                return Ok(());
            }
        }
        Ok(())
    }

    /// self-undoing: loan until the first error, drop the loans again
    fn loan_probe(&self, s: &mut Sys, i: usize, when: &str) -> Result<(), Fail> {
        let outstanding = s.m.p(i).loans.len();
        let want = s.cfg.loans - outstanding;
        let inst = s.m.p(i).inst;
        let limit = s.cfg.loans + 2;
        let (addrs, err) = s.real().probe_loans(i, limit);
        for a in &addrs[..addrs.len().min(want)] {
            self.check_addr(s, inst, *a, "loan probe")?;
            if s.diverged {
                return Ok(());
            }
        }
        if addrs.len() < want {
            let e = err.unwrap_or(LoanError::InternalFailure);
            return self.loan_failure(s, e, &format!("loan probe {when}"), format!("only {} of the {want} free loans could be taken ({outstanding} outstanding)", addrs.len()));
        }
        if s.mode == Mode::C08 && (addrs.len() > want || err != Some(LoanError::ExceedsMaxLoans)) {
            flag!(self, s, Own::C08, "c08-limit-error", "Loan beyond max_loaned_samples", "with {outstanding} loans outstanding {} more loans were granted (limit {}), then {err:?}; documented: ExceedsMaxLoans", addrs.len(), s.cfg.loans);
        }
        Ok(())
    }

    // -------------------------------------------------------------------------------------
    // C08: sufficiency probe and one-too-many probes

    fn post_c08(&self, s: &mut Sys, ports_changed: bool) -> Result<(), Fail> {
        for i in s.m.alive_pubs() {
            self.loan_probe(s, i, "after every step")?;
            if s.diverged {
                return Ok(());
            }
        }
        if s.m.alive_pubs().len() == s.cfg.maxp {
            let r = s.real().create_pub_extra();
            if r != Err(PublisherCreateError::ExceedsMaxSupportedPublishers) {
                flag!(self, s, Own::C08, "c08-limit-error", "CreatePub beyond max_publishers", "returned {:?}, documented: ExceedsMaxSupportedPublishers", r);
            }
        }
        if s.m.alive_subs().len() == s.cfg.maxs {
            let r = s.real().create_sub_extra(None, None);
            if r != Err(SubscriberCreateError::ExceedsMaxSupportedSubscribers) {
                flag!(self, s, Own::C08, "c08-limit-error", "CreateSub beyond max_subscribers", "returned {:?}, documented: ExceedsMaxSupportedSubscribers", r);
            }
        }
        if ports_changed {
            // requests beyond the service's static limits (independent of the delivery state)
            let too_big = s.cfg.buf + 1;
            let r = s.real().create_sub_extra(Some(too_big), None);
            if r != Err(SubscriberCreateError::BufferSizeExceedsMaxSupportedBufferSizeOfService) {
                flag!(self, s, Own::C08, "c08-limit-error", "CreateSub with buffer beyond subscriber_max_buffer_size", "returned {:?}, documented: BufferSizeExceedsMaxSupportedBufferSizeOfService", r);
            }
            let too_many = s.cfg.hist + 1;
            let r = s.real().create_sub_extra(None, Some(too_many));
            if r != Err(SubscriberCreateError::HistoryRequestExceedsHistorySizeOfService) {
                flag!(self, s, Own::C08, "c08-limit-error", "CreateSub with history request beyond history_size", "returned {:?}, documented: HistoryRequestExceedsHistorySizeOfService", r);
            }
        }
        self.borrow_probe(s, false)?;
        if s.diverged {
            return Ok(());
        }
        // no side effect visible in the cheap observables
        for j in s.m.alive_subs() {
            let want = s.m.has_samples(j, false);
            s.m.sub_update(j, false);
            let want_after = s.m.has_samples(j, false);
            match s.real().has_samples(j) {
                Ok(got) if got == want_after => {}
                Ok(got) => {
                    flag!(self, s, Own::C01, "c01-has-samples", "has_samples after limit probes", "has_samples() is {got}, the model has {want_after} (before its update {want})");
                }
                Err(e) => flag!(self, s, Own::Any, "unexpected-error", "has_samples", "has_samples failed with {e:?}"),
            }
        }
        for i in s.m.alive_pubs() {
            self.loan_probe(s, i, "after the rejected calls")?;
            if s.diverged {
                return Ok(());
            }
        }
        Ok(())
    }

    /// End of a C01 execution: whatever was sent to a subscriber while it was registered and is not
    /// covered by the documented loss must be receivable now, also when the publisher is gone.
    fn demand_entitled(&self, s: &mut Sys) -> Result<(), Fail> {
        s.strict_lost = true;
        for j in s.m.alive_subs() {
            let sinst = s.m.s(j).inst;
            if !s.m.conns.iter().any(|c| c.sub_inst == sinst && !c.sub_side && !c.pub_alive && !c.fifo.is_empty()) {
                continue;
            }
            while !s.m.s(j).held.is_empty() {
                self.do_drop_sample(s, j, 0)?;
            }
            for _ in 0..64 {
                if s.m.recv_expect(&s.cfg, j, true) == RecvExpect::None {
                    break;
                }
                self.do_receive(s, j)?;
                if s.diverged || s.m.s(j).held.is_empty() {
                    break;
                }
                self.do_drop_sample(s, j, 0)?;
            }
        }
        Ok(())
    }

    /// Receive with the documented number of borrowed samples already held and samples pending must
    /// be rejected with ExceedsMaxBorrows. A call that is NOT rejected consumes a sample, so the probe
    /// is only free of side effects where the model is sure of the rejection (every connection with
    /// data is at the limit); the other situations are probed at the end of the execution (`last`).
    fn borrow_probe(&self, s: &mut Sys, last: bool) -> Result<(), Fail> {
        for j in s.m.alive_subs() {
            if s.m.total_held(j) < s.cfg.bor {
                continue;
            }
            s.m.sub_update(j, false);
            if !s.m.has_samples(j, false) {
                continue;
            }
            let per_connection_room = matches!(s.m.recv_expect(&s.cfg, j, false), RecvExpect::Some(_));
            if per_connection_room && !last {
                continue;
            }
            match s.real().receive(j) {
                Err(ReceiveError::ExceedsMaxBorrows) => {}
                Ok(None) => {
                    flag!(self, s, Own::C01, "c01-lost-sample", "receive returned nothing (borrow limit probe)", "the model has samples pending for this subscriber, receive returned None");
                }
                other => {
                    let site = if per_connection_room {
                        "Receive beyond subscriber_max_borrowed_samples accepted: samples of another publisher pending"
                    } else {
                        "Receive beyond subscriber_max_borrowed_samples accepted"
                    };
                    flag!(self, s, Own::C08, "c08-limit-error", site, "the subscriber holds {} samples (subscriber_max_borrowed_samples = {}), samples are pending, receive returned {:?}; documented: ExceedsMaxBorrows", s.m.total_held(j), s.cfg.bor, other.map(|o| o.map(|r| r.words.len())));
                }
            }
        }
        Ok(())
    }

    // -------------------------------------------------------------------------------------
    // end of an execution: worst-case demand on every publisher's data segment

    fn saturate(&self, s: &mut Sys) -> Result<(), Fail> {
        macro_rules! go {
            ($e:expr) => {
                $e?;
                if s.diverged {
                    return Ok(());
                }
            };
        }
        while !s.m.zombies.is_empty() {
            go!(self.do_zombie_drop(s, 0));
        }
        while !s.m.orphans.is_empty() {
            go!(self.do_drop_orphan(s, 0));
        }
        for i in s.m.alive_pubs() {
            while !s.m.p(i).loans.is_empty() {
                s.real().drop_loan(i, 0);
                s.m.pubs[i].as_mut().unwrap().loans.remove(0);
            }
        }
        for j in s.m.alive_subs() {
            while !s.m.s(j).held.is_empty() {
                go!(self.do_drop_sample(s, j, 0));
            }
            // drain
            for _ in 0..4 * (s.cfg.buf + 1) {
                go!(self.do_receive(s, j));
                if s.m.s(j).held.is_empty() {
                    break;
                }
                go!(self.do_drop_sample(s, j, 0));
            }
        }
        // all subscribers the service admits, the new ones with the largest buffer
        for j in 0..s.cfg.maxs {
            if s.m.subs[j].is_none() {
                go!(self.do_create_sub(s, j, true));
            }
        }
        if s.m.alive_pubs().is_empty() {
            go!(self.do_create_pub(s, 0));
        }
        for i in s.m.alive_pubs() {
            // every subscriber borrows its maximum from this publisher ...
            for _ in 0..s.cfg.bor {
                go!(self.do_send_copy(s, i, "saturation"));
                for j in s.m.alive_subs() {
                    go!(self.do_receive(s, j));
                }
            }
            // ... its buffer is full, the history holds other samples than the buffers where possible ...
            for _ in 0..s.cfg.buf + s.cfg.hist {
                go!(self.do_send_copy(s, i, "saturation"));
            }
            // ... and all loans are taken
            for _ in 0..s.cfg.loans {
                go!(self.do_loan(s, i, "saturation: all subscribers connected, buffers full, max borrowed, history full"));
            }
            if s.mode == Mode::C02 {
                go!(self.post_c02_stability_only(s));
            }
        }
        Ok(())
    }

    fn post_c02_stability_only(&self, s: &mut Sys) -> Result<(), Fail> {
        for j in s.m.alive_subs() {
            for k in 0..s.m.s(j).held.len() {
                let seq = s.m.s(j).held[k].seq;
                let got = s.real().read_sample(j, k);
                self.stable(s, seq, got, "held sample")?;
                if s.diverged {
                    return Ok(());
                }
            }
        }
        Ok(())
    }
}

fn start_ops(c: &Cfg) -> Vec<Op> {
    let all = c.populate == Populate::All;
    let np = if all { c.maxp } else { 1 };
    let ns = if all { c.maxs } else { 1 };
    let pubs: Vec<Op> = (0..np as u8).map(Op::CreatePub).collect();
    let subs: Vec<Op> = (0..ns as u8).map(Op::CreateSub).collect();
    let sends: Vec<Op> = (0..c.hist + 1).map(|_| Op::SendCopy(0)).collect();
    match c.focus {
        Focus::Full => vec![],
        Focus::ChurnSub => match c.start {
            Start::PubSends => [pubs, sends].concat(),
            _ => pubs,
        },
        Focus::ChurnPub => subs,
        Focus::Delivery => match c.start {
            Start::SubFirst => [subs, pubs].concat(),
            Start::PubFirst => [pubs, subs].concat(),
            Start::PubSends => [pubs, sends, subs].concat(),
        },
    }
}

impl Harness for H {
    type Cfg = Cfg;
    type Op = Op;
    type Sys = Sys;

    fn name(&self) -> &'static str {
        "h_pubsub"
    }

    fn property(&self) -> &'static str {
        match mode() {
            Mode::C01 => "C01",
            Mode::C02 => "C02",
            Mode::C08 => "C08",
        }
    }

    fn rule(&self) -> String {
        format!(
            "tree: every sequence of API calls up to the depth of the configuration (4..7 quick, 5..8 thorough; chosen from an estimate \
             of the branching so that a configuration has a few thousand / ~10^5 maximal sequences) after a checked start prefix, on \
             the real ports of one service, single-threaded; then frontier mode over distinct model states (depth <= 10 quick, 12 \
             thorough). Alphabet by focus: CreatePub/DropPub/CreateSub/DropSub (lowest free slot, capped per execution), Loan \
             (loan+write), Send(l)/DropLoan(l) for the first/last outstanding loan, SendCopy, Receive (keeps the sample), DropSample \
             (first/last), UpdPub/UpdSub where they change a connection, DropOrphan (sample whose subscriber is gone), \
             ZombieSend/ZombieDrop (loan whose publisher is gone); with --prop C08 FillBuffers/BorrowMax/LoanMax replace \
             SendCopy/Receive/Loan. Every execution ends with a worst-case saturation of every publisher (C02, C08) or a demand of \
             everything still owed (C01). A state is the canonical reference model (ports, per-pair FIFOs, history, loans, held \
             samples; sequence numbers and instances by rank). {}",
            cfg::RULE
        )
    }

    fn configs(&self, tier: Tier) -> Vec<(Cfg, Plan)> {
        cfg::configs(tier, self.property())
    }

    fn new_sys(&self, cfg: &Cfg) -> Result<Sys, Fail> {
        no_panic("start prefix", || self.build(cfg, false))
    }

    fn enabled(&self, s: &Sys) -> Vec<Op> {
        if s.diverged {
            return vec![];
        }
        let m = &s.m;
        let c = &s.cfg;
        let c08 = s.mode == Mode::C08;
        let churn_pub = matches!(c.focus, Focus::ChurnPub | Focus::Full);
        let churn_sub = matches!(c.focus, Focus::ChurnSub | Focus::Full);
        let loan_ops = matches!(c.focus, Focus::Delivery | Focus::ChurnPub | Focus::Full);
        let full = c.focus == Focus::Full;
        let mut v = Vec::new();
        let pubs = m.alive_pubs();
        let subs = m.alive_subs();
        for &i in &pubs {
            let p = m.p(i);
            let free = p.loans.len() < c.loans;
            if free {
                v.push(if c08 { Op::FillBuffers(i as u8) } else { Op::SendCopy(i as u8) });
            }
        }
        for &j in &subs {
            let predicted = m.recv_expect(c, j, s.mode == Mode::C01) != RecvExpect::None;
            let within = !c08 || m.total_held(j) < c.bor;
            if within && (predicted || m.sub_update_matters(j)) {
                v.push(if c08 && c.bor > 1 { Op::BorrowMax(j as u8) } else { Op::Receive(j as u8) });
            }
        }
        for &j in &subs {
            let n = m.s(j).held.len();
            if n > 0 {
                v.push(Op::DropSample(j as u8, 0));
            }
            if n > 1 {
                v.push(Op::DropSample(j as u8, (n - 1) as u8));
            }
        }
        for &i in &pubs {
            let p = m.p(i);
            let n = p.loans.len();
            if (loan_ops || c08) && (i == 0 || full || c08) {
                if n < c.loans {
                    v.push(if c08 { Op::LoanMax(i as u8) } else { Op::Loan(i as u8) });
                }
                if n > 0 {
                    v.push(Op::Send(i as u8, 0));
                    v.push(Op::DropLoan(i as u8, (n - 1) as u8));
                }
                if n > 1 {
                    v.push(Op::Send(i as u8, (n - 1) as u8));
                }
            }
            if (churn_sub || full) && m.pub_update_matters(i) {
                v.push(Op::UpdPub(i as u8));
            }
        }
        if full {
            for &j in &subs {
                if m.sub_update_matters(j) {
                    v.push(Op::UpdSub(j as u8));
                }
            }
        }
        if churn_sub {
            if subs.len() < c.maxs && m.creates_sub < c.max_creates {
                let j = (0..c.maxs).find(|j| m.subs[*j].is_none()).unwrap();
                v.push(Op::CreateSub(j as u8));
            }
            for &j in &subs {
                v.push(Op::DropSub(j as u8));
            }
            if !m.orphans.is_empty() {
                v.push(Op::DropOrphan(0));
            }
        }
        if churn_pub {
            if pubs.len() < c.maxp && m.creates_pub < c.max_creates {
                let i = (0..c.maxp).find(|i| m.pubs[*i].is_none()).unwrap();
                v.push(Op::CreatePub(i as u8));
            }
            for &i in &pubs {
                v.push(Op::DropPub(i as u8));
            }
            if !m.zombies.is_empty() {
                v.push(Op::ZombieSend(0));
                v.push(Op::ZombieDrop(0));
            }
        }
        v
    }

    fn apply(&self, s: &mut Sys, op: &Op) -> Result<(), Fail> {
        s.ops.push(op.clone());
        no_panic(&format!("{op:?}"), || self.step(s, op))
    }

    fn finish(&self, s: Sys) -> Result<(), Fail> {
        no_panic("finish", move || self.finish_inner(s))
    }

    fn model_key(&self, s: &Sys) -> u64 {
        seqx::hash_of(&(s.m.canonical(), s.diverged))
    }

    fn nontrivial(&self, s: &Sys) -> bool {
        s.m.sends > 0 || !s.ops.is_empty()
    }

    fn max_violations_per_worker(&self) -> usize {
        // findings on the unchanged tree must not stop the exploration of the other sequences
        200_000
    }
}

impl H {
    fn finish_inner(&self, mut s: Sys) -> Result<(), Fail> {
        s.in_finish = true;
        let mut verdict = Ok(());
        if !s.diverged && !s.control && s.mode == Mode::C08 {
            verdict = self.borrow_probe(&mut s, true);
        }
        if !s.diverged && !s.control && s.mode == Mode::C01 {
            verdict = self.demand_entitled(&mut s);
        }
        if verdict.is_ok() && !s.diverged && !s.control && s.mode != Mode::C01 {
            verdict = self.saturate(&mut s);
        }
        let r = s.real.take().expect("finish twice").finish();
        verdict?;
        if let Err(e) = r {
            if !s.diverged {
                return Err(Fail::new("sanity-recreate", "finish: service of the same name with other settings", e));
            }
        }
        Ok(())
    }
}

/// A panic of the code under test (fatal_panic!, debug_assert!) is a violation; its message
/// contains ids and addresses that differ between processes, so only its stable part is kept.
fn no_panic<R>(site: &str, f: impl FnOnce() -> Result<R, Fail>) -> Result<R, Fail> {
    match std::panic::catch_unwind(std::panic::AssertUnwindSafe(f)) {
        Ok(r) => r,
        Err(p) => {
            let msg = if let Some(s) = p.downcast_ref::<&str>() {
                s.to_string()
            } else if let Some(s) = p.downcast_ref::<String>() {
                s.clone()
            } else {
                "panic with non-string payload".to_string()
            };
            let tail: String = {
                let chars: Vec<char> = msg.chars().collect();
                chars[chars.len().saturating_sub(220)..].iter().collect()
            };
            let mut clean = String::new();
            let mut digits = 0;
            for c in tail.chars() {
                if c.is_ascii_digit() {
                    digits += 1;
                    if digits == 1 {
                        clean.push('#');
                    }
                } else {
                    digits = 0;
                    clean.push(c);
                }
            }
            let site_kind: String = site.chars().take_while(|c| c.is_alphabetic() || *c == ' ').collect();
            Err(Fail::new("panic", format!("panic in {site_kind}"), format!("...{clean}")))
        }
    }
}

fn main() {
    // A Subscriber allocates ~0.5 MB; with the default malloc thresholds every port creation maps
    // and unmaps fresh pages, which costs milliseconds on a loaded machine. Keep freed memory.
    unsafe {
        libc::mallopt(libc::M_MMAP_THRESHOLD, 256 << 20);
        libc::mallopt(libc::M_TRIM_THRESHOLD, 1 << 30);
        libc::mallopt(libc::M_TOP_PAD, 64 << 20);
    }
    if let Ok(n) = std::env::var("HPS_BENCH") {
        // development aid: cost of executions in one process (cfg index, op-less executions)
        let n: usize = n.parse().unwrap();
        let idx: usize = std::env::var("HPS_CFG").ok().and_then(|v| v.parse().ok()).unwrap_or(0);
        let (cfg, _) = H.configs(Tier::Quick)[idx].clone();
        for round in 0..5 {
            let t = std::time::Instant::now();
            for _ in 0..n {
                let t0 = std::time::Instant::now();
                let mut s = H.new_sys(&cfg).unwrap();
                if round == 4 && std::env::var("HPS_VERBOSE").is_ok() {
                    println!("   new_sys: {:?}", t0.elapsed());
                }
                let pick: Vec<usize> = std::env::var("HPS_PICK").unwrap_or_default().split(',').filter_map(|x| x.parse().ok()).collect();
                for k in pick.iter() {
                    let en = H.enabled(&s);
                    if en.is_empty() {
                        break;
                    }
                    let op = en[k % en.len()].clone();
                    let t1 = std::time::Instant::now();
                    H.apply(&mut s, &op).unwrap();
                    if round == 4 && std::env::var("HPS_VERBOSE").is_ok() {
                        println!("   {op:?}: {:?}", t1.elapsed());
                    }
                }
                let t2 = std::time::Instant::now();
                H.finish(s).unwrap();
                if round == 4 && std::env::var("HPS_VERBOSE").is_ok() {
                    println!("   finish: {:?}", t2.elapsed());
                }
            }
            println!("round {round}: {:?} per execution", t.elapsed() / n as u32);
        }
        return;
    }
    seqx::main(H);
}
