//! Configurations of h_pubsub and the covering rule that selects them.

use seqx::{Plan, Tier};
use serde::{Deserialize, Serialize};

use crate::cover::covering_array;

#[derive(Clone, Copy, Debug, PartialEq, Eq, Hash, Serialize, Deserialize)]
pub enum Variant {
    Local,
    Ipc,
}

#[derive(Clone, Copy, Debug, PartialEq, Eq, Hash, Serialize, Deserialize)]
pub enum Payload {
    U64,
    Slice,
    /// one u64 in a #[repr(align(64))] struct
    Wide,
}

#[derive(Clone, Copy, Debug, PartialEq, Eq, Hash, Serialize, Deserialize)]
pub enum Strategy {
    Discard,
    FollowDiscard,
    RetryThenDiscard,
    RetryThenFail,
    /// the handler makes the blocking subscriber receive one sample and retries
    RetryConsume,
}

/// what a subscriber slot asks for in its builder
#[derive(Clone, Copy, Debug, PartialEq, Eq, Hash, Serialize, Deserialize)]
pub enum SubQos {
    /// nothing: buffer = service maximum, history request = min(history size, buffer)
    Default,
    /// buffer_size(1)
    SmallBuffer,
    /// history_request(0)
    NoHistory,
    /// history_request(min(1, history size))
    OneHistory,
}

/// which part of the alphabet is offered
#[derive(Clone, Copy, Debug, PartialEq, Eq, Hash, Serialize, Deserialize)]
pub enum Focus {
    /// fixed ports; loan / send / send_copy / drop loan / receive / drop sample
    Delivery,
    /// publishers fixed; subscribers are created and dropped
    ChurnSub,
    /// subscribers fixed; publishers are created and dropped
    ChurnPub,
    /// everything, from the empty service
    Full,
}

/// checked prefix executed by `new_sys` (the ports of the churned role are not created)
#[derive(Clone, Copy, Debug, PartialEq, Eq, Hash, Serialize, Deserialize)]
pub enum Start {
    SubFirst,
    PubFirst,
    /// publisher 0 sends history_size + 1 samples before any subscriber exists
    PubSends,
}

#[derive(Clone, Copy, Debug, PartialEq, Eq, Hash, Serialize, Deserialize)]
pub enum Populate {
    One,
    All,
}

#[derive(Clone, Debug, PartialEq, Eq, Hash, Serialize, Deserialize)]
pub struct Cfg {
    pub variant: Variant,
    pub payload: Payload,
    pub maxp: usize,
    pub maxs: usize,
    pub buf: usize,
    pub hist: usize,
    pub bor: usize,
    pub loans: usize,
    pub overflow: bool,
    pub strategy: Strategy,
    pub sub_qos: [SubQos; 2],
    pub focus: Focus,
    pub start: Start,
    pub populate: Populate,
    /// at most this many CreatePub / CreateSub operations per execution (each)
    pub max_creates: usize,
}

impl Cfg {
    /// (buffer_size argument, history_request argument) of subscriber slot j
    pub fn sub_args(&self, j: usize) -> (Option<usize>, Option<usize>) {
        match self.sub_qos[j.min(1)] {
            SubQos::Default => (None, None),
            SubQos::SmallBuffer => (Some(1), None),
            SubQos::NoHistory => (None, Some(0)),
            SubQos::OneHistory => (None, Some(self.hist.min(1))),
        }
    }
    /// documented resolution of the arguments: (buffer size, history request)
    pub fn sub_resolved(&self, j: usize) -> (usize, usize) {
        let (b, h) = self.sub_args(j);
        let b = b.unwrap_or(self.buf);
        (b, h.unwrap_or(self.hist.min(b)))
    }
}

const MAXP: [usize; 2] = [1, 2];
const MAXS: [usize; 2] = [1, 2];
const BUF: [usize; 3] = [1, 2, 3];
const HIST: [usize; 3] = [0, 1, 2];
const BOR: [usize; 2] = [1, 2];
const LOANS: [usize; 2] = [1, 2];
const OVF: [bool; 2] = [true, false];
const STRAT: [Strategy; 5] = [Strategy::Discard, Strategy::RetryThenDiscard, Strategy::RetryConsume, Strategy::RetryThenFail, Strategy::FollowDiscard];
const QOS: [SubQos; 4] = [SubQos::Default, SubQos::SmallBuffer, SubQos::NoHistory, SubQos::OneHistory];
const PAYLOAD: [Payload; 3] = [Payload::U64, Payload::Slice, Payload::Wide];
const START: [Start; 3] = [Start::SubFirst, Start::PubFirst, Start::PubSends];
const POP: [Populate; 2] = [Populate::One, Populate::All];

// knob indices
const K_MAXP: usize = 0;
const K_MAXS: usize = 1;
const K_BUF: usize = 2;
const K_HIST: usize = 3;
const K_BOR: usize = 4;
const K_LOANS: usize = 5;
const K_OVF: usize = 6;
const K_STRAT: usize = 7;
const K_QOS0: usize = 8;
const K_QOS1: usize = 9;
const K_PAYLOAD: usize = 10;
const K_FOCUS: usize = 11;
const K_START: usize = 12;
const K_POP: usize = 13;

pub const RULE: &str = "configurations = greedy covering array (cover.rs) over the knobs max_publishers{1,2} x max_subscribers{1,2} x \
subscriber_max_buffer_size{1,2,3} x history_size{0,1,2} x subscriber_max_borrowed_samples{1,2} x max_loaned_samples{1,2} x \
safe_overflow{on,off} x backpressure{DiscardData, RetryUntilDelivered+handler(retry twice, discard), RetryUntilDelivered+handler(the blocking subscriber \
receives one sample, retry), RetryUntilDelivered+handler(retry, discard-and-fail), DiscardData+handler(follow strategy)} x subscriber-0 request{default, buffer_size(1), history_request(0), \
history_request(1)} x subscriber-1 request{same 4} x payload{u64, [u64] slice len 1..3 static, u64 in a 64-byte aligned struct} x alphabet focus{delivery, subscriber \
churn, publisher churn[, full]} x start prefix{subscriber first, publisher first, publisher sends history+1 samples first} x \
population{one port per role, all ports}: every valid PAIR of knob values occurs, and every valid combination of the interacting \
groups overflow x buffer x history x subscriber-0 request, borrowed x buffer x overflow, loans x history x overflow, \
backpressure x buffer x max_subscribers (overflow off), focus x start x max_publishers x max_subscribers occurs (validity: without \
overflow buffer >= history, as the service builder demands). Service variant: local for all; thorough adds an ipc pass over a pairwise \
array of the same knobs. Plus three directed configurations with THREE subscribers, no safe overflow, one publisher and the strategies \
discard-and-fail / retry-then-discard / discard (one send meets several full subscribers and one with room), and two directed \
configurations with ONE publisher slot that is re-filled up to 3 times while the subscriber keeps samples of the vanished publishers.";

fn valid(a: &[Option<usize>]) -> bool {
    // the service builder rejects history > buffer without safe overflow
    // (any two of the three knobs leave a valid value for the third)
    if let (Some(o), Some(b), Some(h)) = (a[K_OVF], a[K_BUF], a[K_HIST]) {
        if !OVF[o] && BUF[b] < HIST[h] {
            return false;
        }
    }
    true
}

fn decode(t: &[usize], focuses: &[Focus], variant: Variant, max_creates: usize) -> Cfg {
    Cfg {
        variant,
        payload: PAYLOAD[t[K_PAYLOAD]],
        maxp: MAXP[t[K_MAXP]],
        maxs: MAXS[t[K_MAXS]],
        buf: BUF[t[K_BUF]],
        hist: HIST[t[K_HIST]],
        bor: BOR[t[K_BOR]],
        loans: LOANS[t[K_LOANS]],
        overflow: OVF[t[K_OVF]],
        strategy: STRAT[t[K_STRAT]],
        sub_qos: [QOS[t[K_QOS0]], QOS[t[K_QOS1]]],
        focus: focuses[t[K_FOCUS]],
        start: START[t[K_START]],
        populate: POP[t[K_POP]],
        max_creates,
    }
}

fn knob_sizes(focuses: &[Focus]) -> Vec<usize> {
    vec![2, 2, 3, 3, 2, 2, 2, 5, 4, 4, 3, focuses.len(), 3, 2]
}

fn local_set(focuses: &[Focus], max_creates: usize) -> Vec<Cfg> {
    let groups = vec![
        vec![K_OVF, K_BUF, K_HIST, K_QOS0],
        vec![K_BOR, K_BUF, K_OVF],
        vec![K_LOANS, K_HIST, K_OVF],
        vec![K_STRAT, K_BUF, K_MAXS, K_OVF],
        vec![K_FOCUS, K_START, K_MAXP, K_MAXS],
    ];
    covering_array(&knob_sizes(focuses), &groups, &valid).iter().map(|t| decode(t, focuses, Variant::Local, max_creates)).collect()
}

fn ipc_set(focuses: &[Focus], max_creates: usize) -> Vec<Cfg> {
    covering_array(&knob_sizes(focuses), &[], &valid).iter().map(|t| decode(t, focuses, Variant::Ipc, max_creates)).collect()
}

/// rough number of operations offered per state, used to choose the depth for a leaf budget
fn branching_estimate(c: &Cfg, prop: &str) -> f64 {
    let all = c.populate == Populate::All;
    let p = if all { c.maxp } else { 1 } as f64;
    let s = if all { c.maxs } else { 1 } as f64;
    let c08 = prop == "C08";
    match c.focus {
        Focus::Delivery => {
            let per_pub0 = if c08 { 3.0 } else { 3.2 };
            let per_pub = if c08 { 2.0 } else { 1.0 };
            per_pub0 + (p - 1.0) * per_pub + s * 1.7
        }
        Focus::ChurnSub => {
            let subs = (c.maxs as f64) * 0.8;
            (if c08 { 2.0 } else { 1.3 }) * p + 1.0 + subs * 2.6 + 0.4
        }
        Focus::ChurnPub => {
            let pubs = (c.maxp as f64) * 0.8;
            1.0 + pubs * (if c08 { 3.6 } else { 3.4 }) + s * 1.6 + 0.5
        }
        Focus::Full => 2.0 + (c.maxp as f64) * 3.0 + (c.maxs as f64) * 2.4,
    }
}

fn depth_for(c: &Cfg, prop: &str, leaves: f64, min: usize, max: usize) -> usize {
    let b = branching_estimate(c, prop).max(2.0);
    let d = (leaves.ln() / b.ln()).round() as usize;
    d.clamp(min, max)
}

/// directed additions to the covering array: three subscribers without safe overflow, so that one
/// send meets several full subscribers and one with room (delivery must not stop at a full one)
fn three_subscribers(max_creates: usize) -> Vec<Cfg> {
    let mut v = Vec::new();
    for (strategy, buf, start) in [(Strategy::RetryThenFail, 1, Start::SubFirst), (Strategy::RetryThenDiscard, 1, Start::SubFirst), (Strategy::Discard, 2, Start::PubFirst)] {
        v.push(Cfg {
            variant: Variant::Local,
            payload: Payload::U64,
            maxp: 1,
            maxs: 3,
            buf,
            hist: 0,
            bor: 1,
            loans: 1,
            overflow: false,
            strategy,
            sub_qos: [SubQos::Default, SubQos::Default],
            focus: Focus::Delivery,
            start,
            populate: Populate::All,
            max_creates,
        });
    }
    v
}

/// directed additions: ONE publisher slot that is filled again and again while the subscriber keeps
/// undelivered samples of the publishers that are gone (more expired connections than max_publishers)
fn publisher_churn(max_creates: usize) -> Vec<Cfg> {
    let mut v = Vec::new();
    for (overflow, buf, payload) in [(false, 3, Payload::U64), (true, 2, Payload::Slice)] {
        v.push(Cfg {
            variant: Variant::Local,
            payload,
            maxp: 1,
            maxs: 1,
            buf,
            hist: 0,
            bor: 2,
            loans: 1,
            overflow,
            strategy: Strategy::Discard,
            sub_qos: [SubQos::Default, SubQos::Default],
            focus: Focus::ChurnPub,
            start: Start::PubFirst,
            populate: Populate::All,
            max_creates,
        });
    }
    v
}

pub fn configs(tier: Tier, prop: &str) -> Vec<(Cfg, Plan)> {
    let mut out = Vec::new();
    match tier {
        Tier::Quick => {
            let focuses = [Focus::Delivery, Focus::ChurnSub, Focus::ChurnPub];
            for c in local_set(&focuses, 3) {
                let leaves = if prop == "C08" { 3000.0 } else { 12000.0 };
                let d = depth_for(&c, prop, leaves, 4, 7);
                let frontier = if prop == "C08" { (60, 8) } else { (150, 10) };
                out.push((c, Plan { tree_depth: d, finish_prefixes: false, frontier: Some(frontier), split: 1 }));
            }
            for c in three_subscribers(3) {
                out.push((c, Plan { tree_depth: 5, finish_prefixes: false, frontier: Some((100, 8)), split: 2 }));
            }
            for c in publisher_churn(3) {
                out.push((c, Plan { tree_depth: 7, finish_prefixes: false, frontier: Some((400, 11)), split: 3 }));
            }
        }
        Tier::Thorough => {
            let focuses = [Focus::Delivery, Focus::ChurnSub, Focus::ChurnPub, Focus::Full];
            for c in local_set(&focuses, 4) {
                let leaves = if prop == "C08" { 25_000.0 } else { 120_000.0 };
                let d = depth_for(&c, prop, leaves, 5, 8);
                let states = if prop == "C08" { 1000 } else { 1500 };
                out.push((c, Plan { tree_depth: d, finish_prefixes: false, frontier: Some((states, 12)), split: 1 }));
            }
            for c in three_subscribers(4) {
                out.push((c, Plan { tree_depth: 7, finish_prefixes: false, frontier: Some((800, 12)), split: 4 }));
            }
            let focuses = [Focus::Delivery, Focus::ChurnSub, Focus::ChurnPub];
            for c in ipc_set(&focuses, 3) {
                let d = depth_for(&c, prop, 1500.0, 3, 5);
                out.push((c, Plan { tree_depth: d, finish_prefixes: false, frontier: None, split: 1 }));
            }
        }
    }
    out
}
