//! (e) loan budget with a REDUCED data segment (C02: "once every reference is gone the chunk becomes
//! loanable again, so that after any history the publisher can again loan its full configured
//! number of samples"). The publisher is created with `override_sample_preallocation(|_| chunks)`, so
//! that a loan can legitimately fail with OutOfMemory while chunks are referenced; whatever failed
//! before, a loan must succeed whenever a chunk is free and fewer than max_loaned_samples loans are out.

use std::collections::VecDeque;
use std::sync::atomic::{AtomicU64, Ordering};

use iceoryx2::port::publisher::Publisher;
use iceoryx2::port::subscriber::Subscriber;
use iceoryx2::port::LoanError;
use iceoryx2::prelude::*;
use iceoryx2::sample::Sample;
use iceoryx2::sample_mut::SampleMut;
use seqx::{ensure, Fail, Plan, Tier};
use serde::{Deserialize, Serialize};

type Svc = local::Service;

const BUFFER: usize = 4;
const MAX_BORROW: usize = 4;

#[derive(Clone, Debug, Serialize, Deserialize)]
pub struct LCfg {
    /// chunks of the publisher's data segment (override_sample_preallocation)
    pub chunks: usize,
    /// max_loaned_samples
    pub loans: usize,
}

#[derive(Clone, Debug, Serialize, Deserialize, PartialEq, Eq)]
pub enum LOp {
    Loan,
    /// send the k-th outstanding loan
    Send(usize),
    /// drop the k-th outstanding loan
    DropLoan(usize),
    Receive,
    DropHeld(usize),
}

pub struct LSys {
    cfg: LCfg,
    loans: Vec<(SampleMut<Svc, u64, ()>, u64)>,
    held: Vec<(Sample<Svc, u64, ()>, u64)>,
    subscriber: Subscriber<Svc, u64, ()>,
    publisher: Publisher<Svc, u64, ()>,
    _service: iceoryx2::service::port_factory::publish_subscribe::PortFactory<Svc, u64, ()>,
    _node: Node<Svc>,
    /// model: values queued in the subscriber buffer
    queue: VecDeque<u64>,
    next: u64,
    /// a loan failed with OutOfMemory earlier in this history
    saw_oom: bool,
}

static COUNTER: AtomicU64 = AtomicU64::new(0);

fn setup(what: &str, e: impl core::fmt::Debug) -> Fail {
    Fail::new("loanbudget-setup", what.to_string(), format!("{e:?}"))
}

pub fn new_sys(cfg: &LCfg) -> Result<LSys, Fail> {
    iceoryx2::prelude::set_log_level(LogLevel::Fatal);
    let n = COUNTER.fetch_add(1, Ordering::Relaxed);
    let name = format!("h_alloc_lb_{}_{}", std::process::id(), n);
    let node = NodeBuilder::new().create::<Svc>().map_err(|e| setup("node", e))?;
    let service = node
        .service_builder(&ServiceName::new(&name).map_err(|e| setup("service name", e))?)
        .publish_subscribe::<u64>()
        .max_publishers(1)
        .max_subscribers(1)
        .history_size(0)
        .subscriber_max_buffer_size(BUFFER)
        .subscriber_max_borrowed_samples(MAX_BORROW)
        .enable_safe_overflow(false)
        .create()
        .map_err(|e| setup("service", e))?;
    let chunks = cfg.chunks;
    let publisher = service
        .publisher_builder()
        .max_loaned_samples(cfg.loans)
        .override_sample_preallocation(move |_| chunks)
        .backpressure_strategy(BackpressureStrategy::DiscardData)
        .create()
        .map_err(|e| setup("publisher", e))?;
    let subscriber = service.subscriber_builder().create().map_err(|e| setup("subscriber", e))?;
    Ok(LSys { cfg: cfg.clone(), loans: Vec::new(), held: Vec::new(), subscriber, publisher, _service: service, _node: node, queue: VecDeque::new(), next: 1, saw_oom: false })
}

fn in_use(s: &LSys) -> usize {
    s.loans.len() + s.queue.len() + s.held.len()
}

pub fn enabled(s: &LSys) -> Vec<LOp> {
    let mut v = vec![LOp::Loan];
    for k in 0..s.loans.len() {
        if s.queue.len() < BUFFER {
            v.push(LOp::Send(k));
        }
        v.push(LOp::DropLoan(k));
    }
    if s.held.len() < MAX_BORROW {
        v.push(LOp::Receive);
    }
    for k in 0..s.held.len() {
        v.push(LOp::DropHeld(k));
    }
    v
}

pub fn apply(s: &mut LSys, op: &LOp) -> Result<(), Fail> {
    match op {
        LOp::Loan => {
            let expect_limit = s.loans.len() >= s.cfg.loans;
            let expect_oom = !expect_limit && in_use(s) >= s.cfg.chunks;
            let history = if s.saw_oom { "after an earlier OutOfMemory" } else { "no OutOfMemory before" };
            match s.publisher.loan() {
                Ok(mut l) => {
                    ensure!(!expect_limit, "c02-loan-limit-not-enforced", "Publisher::loan beyond max_loaned_samples".to_string(), "loan succeeded with {} of {} loans out", s.loans.len(), s.cfg.loans);
                    ensure!(!expect_oom, "c02-loan-of-referenced-chunk", "Publisher::loan with every chunk referenced".to_string(), "loan succeeded although all {} chunks are referenced", s.cfg.chunks);
                    let v = s.next;
                    s.next += 1;
                    *l.payload_mut() = v;
                    s.loans.push((l, v));
                }
                Err(LoanError::ExceedsMaxLoans) => {
                    ensure!(
                        expect_limit,
                        "c02-loan-budget-not-restored",
                        format!("Publisher::loan within max_loaned_samples ({history})"),
                        "ExceedsMaxLoans with {} of {} loans out, {} of {} chunks referenced",
                        s.loans.len(),
                        s.cfg.loans,
                        in_use(s),
                        s.cfg.chunks
                    );
                }
                Err(LoanError::OutOfMemory) => {
                    ensure!(
                        expect_oom,
                        "c02-chunk-not-reusable",
                        format!("Publisher::loan with a free chunk ({history})"),
                        "OutOfMemory with {} of {} chunks referenced ({} loans out)",
                        in_use(s),
                        s.cfg.chunks,
                        s.loans.len()
                    );
                    s.saw_oom = true;
                }
                Err(e) => return Err(Fail::new("c02-loan-failed", "Publisher::loan".to_string(), format!("{e:?}"))),
            }
        }
        LOp::Send(k) => {
            let (l, v) = s.loans.remove(*k);
            match l.send() {
                Ok(n) => ensure!(n == 1, "loanbudget-send", "SampleMut::send".to_string(), "delivered to {n} subscribers"),
                Err(e) => return Err(Fail::new("loanbudget-send", "SampleMut::send".to_string(), format!("{e:?}"))),
            }
            s.queue.push_back(v);
        }
        LOp::DropLoan(k) => {
            let (l, _) = s.loans.remove(*k);
            drop(l);
        }
        LOp::Receive => {
            let r = s.subscriber.receive().map_err(|e| Fail::new("loanbudget-receive", "Subscriber::receive".to_string(), format!("{e:?}")))?;
            match (r, s.queue.pop_front()) {
                (None, None) => {}
                (Some(sample), Some(v)) => {
                    ensure!(*sample == v, "c02-sample-changed", "received sample".to_string(), "received {} instead of {v}", *sample);
                    s.held.push((sample, v));
                }
                (a, b) => return Err(Fail::new("loanbudget-receive", "Subscriber::receive".to_string(), format!("real {:?}, model {:?}", a.map(|x| *x), b))),
            }
        }
        LOp::DropHeld(k) => {
            let (h, _) = s.held.remove(*k);
            drop(h);
        }
    }
    for (l, v) in &s.loans {
        ensure!(*l.payload() == *v, "c02-loan-changed", "outstanding loan".to_string(), "loan reads {} instead of {v}", *l.payload());
    }
    for (h, v) in &s.held {
        ensure!(**h == *v, "c02-sample-changed", "held sample".to_string(), "held sample reads {} instead of {v}", **h);
    }
    Ok(())
}

pub fn finish(mut s: LSys) -> Result<(), Fail> {
    // every reference goes away: the publisher can loan min(chunks, max_loaned_samples) samples again
    s.loans.clear();
    s.held.clear();
    while s.subscriber.receive().map_err(|e| Fail::new("loanbudget-receive", "drain".to_string(), format!("{e:?}")))?.is_some() {}
    s.queue.clear();
    let want = s.cfg.loans.min(s.cfg.chunks);
    for i in 0..want {
        apply(&mut s, &LOp::Loan)?;
        ensure!(s.loans.len() == i + 1, "c02-loan-budget-not-restored", "after every reference is gone".to_string(), "loan #{} of {} failed", i + 1, want);
    }
    Ok(())
}

pub fn model_key(s: &LSys) -> u64 {
    seqx::hash_of(&(s.loans.len(), s.queue.len(), s.held.len(), s.saw_oom))
}

pub fn nontrivial(s: &LSys) -> bool {
    s.next > 1
}

pub fn configs(tier: Tier) -> Vec<(LCfg, Plan)> {
    let q = tier == Tier::Quick;
    let mut v = Vec::new();
    for (chunks, loans) in [(1usize, 1usize), (2, 2), (3, 2), (2, 3)] {
        v.push((LCfg { chunks, loans }, Plan { tree_depth: if q { 7 } else { 9 }, finish_prefixes: true, frontier: None, split: if q { 1 } else { 4 } }));
    }
    v
}
