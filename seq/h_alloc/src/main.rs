//! h_alloc – property C15: every successful allocation from a data segment lies inside the
//! segment, satisfies the requested alignment and size, overlaps no other live allocation; freed
//! memory is reusable; unsatisfiable requests fail with the documented error; payloads survive the
//! growth of a dynamically sized segment.
//!
//! (a) allocator level: all allocate / deallocate / grow / shrink histories on the REAL allocators
//!     (bb-memory PoolAllocator + FixedSizePoolAllocator, bb-elementary BumpAllocator, bb-memory
//!     OneChunkAllocator, cal shm_allocator::{PoolAllocator, BumpAllocator}) over a guarded,
//!     deliberately misaligned region, against an interval model of the live allocations.
//! (c) resizable shared memory level (dynmem.rs): allocate / deallocate / grow histories on the real
//!     DynamicMemory<PoolAllocator, process-local | posix shared memory> with every allocation strategy.
//! (b) port level: publish-subscribe with slice payloads and AllocationStrategy::{Static, BestFit,
//!     PowerOfTwo}; a subscriber holds samples across growth of the data segment.

mod dynmem;
mod loanbudget;
mod port;
mod rrdyn;

use std::alloc::Layout;
use std::panic::{catch_unwind, AssertUnwindSafe};
use std::ptr::NonNull;

use iceoryx2_bb_elementary::bump_allocator::BumpAllocator;
use iceoryx2_bb_elementary_traits::allocator::{
    Allocate, AllocateZeroed, AllocationError, AllocationGrowError, AllocationShrinkError, ContentPlacement, Deallocate,
    Grow, Shrink,
};
use iceoryx2_bb_memory::one_chunk_allocator::OneChunkAllocator;
use iceoryx2_bb_memory::pool_allocator::{FixedSizePoolAllocator, PoolAllocator};
use iceoryx2_cal::shm_allocator::bump_allocator::BumpAllocator as ShmBump;
use iceoryx2_cal::shm_allocator::pool_allocator::{Config as ShmPoolConfig, PoolAllocator as ShmPool};
use iceoryx2_cal::shm_allocator::{PointerOffset, ShmAllocator};
use seqx::{ensure, Fail, Harness, Plan, Tier};
use serde::{Deserialize, Serialize};

const GUARD_BYTE: u8 = 0xEE;
const FILL_BYTE: u8 = 0xCD;
const SUSPICION_SITE: &str = "bb-memory PoolAllocator bucket size not multiple of alignment";

#[derive(Clone, Copy, Debug, Serialize, Deserialize, PartialEq, Eq, Hash)]
pub enum Kind {
    /// iceoryx2_bb_memory::pool_allocator::PoolAllocator (new_uninit + init)
    Pool,
    /// FixedSizePoolAllocator<2> (caps the number of buckets)
    Fixed2,
    /// FixedSizePoolAllocator<8>
    Fixed8,
    /// iceoryx2_cal::shm_allocator::pool_allocator::PoolAllocator (offsets)
    ShmPool,
    /// iceoryx2_bb_elementary::bump_allocator::BumpAllocator
    Bump,
    /// iceoryx2_cal::shm_allocator::bump_allocator::BumpAllocator (offsets, deallocate == reset)
    ShmBump,
    /// iceoryx2_bb_memory::one_chunk_allocator::OneChunkAllocator
    OneChunk,
}

impl Kind {
    fn is_pool(self) -> bool {
        matches!(self, Kind::Pool | Kind::Fixed2 | Kind::Fixed8 | Kind::ShmPool)
    }
    fn is_bump(self) -> bool {
        matches!(self, Kind::Bump | Kind::ShmBump)
    }
}

/// One configuration of the allocator level. The region geometry (misalignment of the region start,
/// region size) is chosen by the first operation of every sequence (`Op::Setup`), so that one worker
/// process serves all geometries of a bucket layout.
#[derive(Clone, Debug, Serialize, Deserialize)]
pub struct ACfg {
    kind: Kind,
    bsize: usize,
    balign: usize,
    full_ops: bool,
    /// (misalignment of the region start relative to an 8192-aligned address, region size in bytes)
    geoms: Vec<(usize, usize)>,
}

#[derive(Clone, Debug)]
pub struct Geo {
    kind: Kind,
    /// bucket size (pool) / unit size the request sizes are derived from (bump, one-chunk)
    bsize: usize,
    /// bucket alignment (pool) / unit alignment the request alignments are derived from
    balign: usize,
    /// misalignment of the start of the managed region relative to an 8192-aligned address
    mis: usize,
    /// size of the managed region in bytes
    region: usize,
    /// full operation alphabet (all 15 request layouts, zeroed, grow, shrink) or the sweep alphabet
    full_ops: bool,
}

#[derive(Clone, Debug, Serialize, Deserialize)]
pub enum Cfg {
    Alloc(ACfg),
    Port(port::PCfg),
    Dyn(dynmem::DCfg),
    RrDyn(rrdyn::RCfg),
    LoanBudget(loanbudget::LCfg),
}

#[derive(Clone, Debug, Serialize, Deserialize)]
pub enum Op {
    /// first operation of every allocator-level sequence: build the allocator over a region of
    /// `region` bytes that starts `mis` bytes behind an 8192-aligned address
    Setup { mis: usize, region: usize },
    Alloc { size: usize, align: usize, zeroed: bool },
    Dealloc(usize),
    Grow { k: usize, size: usize, back: bool },
    Shrink { k: usize, size: usize },
    /// bb-elementary BumpAllocator::reset
    Reset,
    Port(port::POp),
    Dyn(dynmem::DOp),
    RrDyn(rrdyn::ROp),
    LoanBudget(loanbudget::LOp),
}

struct Buf {
    ptr: *mut u8,
    layout: Layout,
}

impl Buf {
    fn new(size: usize, align: usize, fill: u8) -> Buf {
        let layout = Layout::from_size_align(size.max(1), align).unwrap();
        let ptr = unsafe { std::alloc::alloc(layout) };
        assert!(!ptr.is_null());
        unsafe { std::ptr::write_bytes(ptr, fill, layout.size()) };
        Buf { ptr, layout }
    }
}

impl Drop for Buf {
    fn drop(&mut self) {
        unsafe { std::alloc::dealloc(self.ptr, self.layout) }
    }
}

enum Real {
    Pool(Box<PoolAllocator>),
    Fixed2(Box<FixedSizePoolAllocator<2>>),
    Fixed8(Box<FixedSizePoolAllocator<8>>),
    ShmPool(Box<ShmPool>),
    Bump(BumpAllocator),
    ShmBump(Box<ShmBump>),
    OneChunk(OneChunkAllocator),
}

#[derive(Clone, Debug)]
struct Live {
    addr: usize,
    /// raw PointerOffset value for the shm allocators
    off: u64,
    size: usize,
    align: usize,
    pat: u8,
}

pub struct ASys {
    cfg: Geo,
    buf: Buf,
    _mgmt: Option<Buf>,
    /// address of the first byte of the managed region
    start: usize,
    real: Real,
    live: Vec<Live>,
    /// pool: number of buckets as reported by the allocator
    nbuckets: usize,
    /// pool: the alignment the allocator reports as maximum
    max_align: usize,
    /// bump: first byte (relative to start) that was never handed out since the last reset
    cursor: usize,
    next_pat: u8,
    steps: u32,
}

pub struct AShell {
    cfg: ACfg,
    sys: Option<ASys>,
}

pub enum Sys {
    Alloc(Box<AShell>),
    Port(Box<port::PSys>),
    Dyn(Box<dynmem::DSys>),
    RrDyn(Box<rrdyn::RSys>),
    LoanBudget(Box<loanbudget::LSys>),
}

fn align_up(v: usize, a: usize) -> usize {
    v.div_ceil(a) * a
}

fn lay(size: usize, align: usize) -> Layout {
    Layout::from_size_align(size, align).expect("valid layout")
}

/// Outcome of an allocation on the real allocator, normalised to absolute addresses.
enum AllocOut {
    Ok { addr: usize, off: u64 },
    Err(AllocationError),
}

impl ASys {
    fn shm_payload_start(&self) -> usize {
        match &self.real {
            Real::ShmPool(a) => self.start + a.relative_start_address(),
            Real::ShmBump(a) => self.start + a.relative_start_address(),
            _ => self.start,
        }
    }

    fn real_allocate(&self, l: Layout, zeroed: bool) -> AllocOut {
        fn conv(r: Result<NonNull<u8>, AllocationError>) -> AllocOut {
            match r {
                Ok(p) => AllocOut::Ok { addr: p.as_ptr() as usize, off: 0 },
                Err(e) => AllocOut::Err(e),
            }
        }
        match &self.real {
            Real::Pool(a) => conv(if zeroed { a.allocate_zeroed(l) } else { a.allocate(l) }),
            Real::Fixed2(a) => conv(if zeroed { a.allocate_zeroed(l) } else { a.allocate(l) }),
            Real::Fixed8(a) => conv(if zeroed { a.allocate_zeroed(l) } else { a.allocate(l) }),
            Real::Bump(a) => conv(a.allocate(l)),
            Real::OneChunk(a) => conv(if zeroed { a.allocate_zeroed(l) } else { a.allocate(l) }),
            Real::ShmPool(a) => match unsafe { a.assume_init() }.allocate(l) {
                Ok(o) => AllocOut::Ok { addr: self.shm_payload_start() + o.offset(), off: o.as_value() },
                Err(e) => AllocOut::Err(e),
            },
            Real::ShmBump(a) => match unsafe { a.assume_init() }.allocate(l) {
                Ok(o) => AllocOut::Ok { addr: self.shm_payload_start() + o.offset(), off: o.as_value() },
                Err(e) => AllocOut::Err(e),
            },
        }
    }

    fn real_deallocate(&self, c: &Live) {
        let l = lay(c.size, c.align);
        let p = unsafe { NonNull::new_unchecked(c.addr as *mut u8) };
        unsafe {
            match &self.real {
                Real::Pool(a) => a.deallocate(p, l),
                Real::Fixed2(a) => a.deallocate(p, l),
                Real::Fixed8(a) => a.deallocate(p, l),
                Real::OneChunk(a) => a.deallocate(p, l),
                Real::ShmPool(a) => a.assume_init().deallocate(PointerOffset::from_value(c.off), l),
                Real::ShmBump(a) => a.assume_init().deallocate(PointerOffset::from_value(c.off), l),
                Real::Bump(_) => unreachable!(),
            }
        }
    }

    fn real_grow(&self, c: &Live, new: Layout, place: ContentPlacement) -> Result<(usize, u64), AllocationGrowError> {
        let old = lay(c.size, c.align);
        let p = unsafe { NonNull::new_unchecked(c.addr as *mut u8) };
        let conv = |r: Result<NonNull<u8>, AllocationGrowError>| r.map(|p| (p.as_ptr() as usize, 0u64));
        let base = self.shm_payload_start();
        unsafe {
            match &self.real {
                Real::Pool(a) => conv(a.grow(p, old, new, place)),
                Real::Fixed2(a) => conv(a.grow(p, old, new, place)),
                Real::Fixed8(a) => conv(a.grow(p, old, new, place)),
                Real::OneChunk(a) => conv(a.grow(p, old, new, place)),
                Real::ShmPool(a) => a
                    .assume_init()
                    .grow(PointerOffset::from_value(c.off), old, new, place)
                    .map(|o| (base + o.offset(), o.as_value())),
                Real::ShmBump(a) => a
                    .assume_init()
                    .grow(PointerOffset::from_value(c.off), old, new, place)
                    .map(|o| (base + o.offset(), o.as_value())),
                Real::Bump(_) => unreachable!(),
            }
        }
    }

    fn real_shrink(&self, c: &Live, new: Layout) -> Result<usize, AllocationShrinkError> {
        let old = lay(c.size, c.align);
        let p = unsafe { NonNull::new_unchecked(c.addr as *mut u8) };
        let conv = |r: Result<NonNull<u8>, AllocationShrinkError>| r.map(|p| p.as_ptr() as usize);
        unsafe {
            match &self.real {
                Real::Pool(a) => conv(a.shrink(p, old, new)),
                Real::Fixed2(a) => conv(a.shrink(p, old, new)),
                Real::Fixed8(a) => conv(a.shrink(p, old, new)),
                Real::OneChunk(a) => conv(a.shrink(p, old, new)),
                _ => unreachable!(),
            }
        }
    }

    fn nonmultiple_pool(&self) -> bool {
        self.cfg.kind.is_pool() && self.cfg.bsize % self.cfg.balign != 0
    }

    fn site(&self, what: &str) -> String {
        format!("{:?} {what}", self.cfg.kind)
    }

    /// guards untouched, every live allocation still carries its own byte pattern
    fn check_memory(&self, after: &str) -> Result<(), Fail> {
        let total = self.buf.layout.size();
        let all = unsafe { std::slice::from_raw_parts(self.buf.ptr, total) };
        let lo = self.start - self.buf.ptr as usize;
        let hi = lo + self.cfg.region;
        ensure!(
            all[..lo].iter().all(|b| *b == GUARD_BYTE) && all[hi..].iter().all(|b| *b == GUARD_BYTE),
            "guard-corrupted",
            self.site(after),
            "memory outside of the managed region [{lo}, {hi}) of the buffer was written"
        );
        for (i, c) in self.live.iter().enumerate() {
            let s = unsafe { std::slice::from_raw_parts(c.addr as *const u8, c.size) };
            if let Some(pos) = s.iter().position(|b| *b != c.pat) {
                return Err(Fail::new(
                    "live-corrupted",
                    self.site(after),
                    format!(
                        "live allocation #{i} (offset {}, size {}, pattern {:#04x}) has byte {:#04x} at +{pos}: its memory was handed out twice or overwritten",
                        c.addr - self.start,
                        c.size,
                        c.pat,
                        s[pos]
                    ),
                ));
            }
        }
        Ok(())
    }

    /// geometry oracle for a fresh (or moved) allocation
    fn check_geometry(&self, addr: usize, size: usize, align: usize, skip: Option<usize>, what: &str) -> Result<(), Fail> {
        let lo = self.start;
        let hi = self.start + self.cfg.region;
        let nm = self.nonmultiple_pool();
        if addr < lo || addr + size > hi {
            return Err(Fail::new(
                if nm { "pool-bucket-out-of-bounds" } else { "alloc-out-of-bounds" },
                if nm { SUSPICION_SITE.to_string() } else { self.site(what) },
                format!(
                    "allocation of {size} bytes at region offset {} leaves the managed region of {} bytes",
                    addr as isize - lo as isize,
                    self.cfg.region
                ),
            ));
        }
        if addr % align != 0 {
            return Err(Fail::new(
                if nm { "pool-bucket-misaligned" } else { "alloc-misaligned" },
                if nm { SUSPICION_SITE.to_string() } else { self.site(what) },
                format!(
                    "allocation with requested layout size {size} align {align} was returned at region offset {} (address mod {align} = {}); bucket layout / unit {}/{}, region start misaligned by {}",
                    addr - lo,
                    addr % align,
                    self.cfg.bsize,
                    self.cfg.balign,
                    self.cfg.mis
                ),
            ));
        }
        for (i, c) in self.live.iter().enumerate() {
            if Some(i) == skip {
                continue;
            }
            let disjoint = addr + size <= c.addr || c.addr + c.size <= addr;
            // pool: two live allocations never share a bucket start either (covers size 0)
            let same_start = self.cfg.kind.is_pool() && addr == c.addr;
            if !disjoint || same_start {
                return Err(Fail::new(
                    "alloc-overlap",
                    self.site(what),
                    format!(
                        "new allocation [{}, +{size}) overlaps live allocation #{i} [{}, +{})",
                        addr - lo,
                        c.addr - lo,
                        c.size
                    ),
                ));
            }
        }
        Ok(())
    }

    fn fill(&mut self, addr: usize, size: usize) -> u8 {
        let pat = self.next_pat;
        self.next_pat = self.next_pat.wrapping_add(1);
        if self.next_pat == GUARD_BYTE || self.next_pat == FILL_BYTE || self.next_pat == 0 {
            self.next_pat = self.next_pat.wrapping_add(1);
        }
        unsafe { std::ptr::write_bytes(addr as *mut u8, pat, size) };
        pat
    }

    fn free_buckets(&self) -> usize {
        self.nbuckets - self.live.len()
    }

    /// (hard reasons: success would hand out bad memory, soft reasons: documented refusals)
    fn alloc_reasons(&self, size: usize, align: usize) -> (Vec<AllocationError>, Vec<AllocationError>, bool) {
        let mut hard = Vec::new();
        let mut soft = Vec::new();
        let mut either = false;
        let k = self.cfg.kind;
        if k.is_pool() {
            if size > self.cfg.bsize {
                hard.push(AllocationError::SizeTooLarge);
            }
            if align > self.max_align {
                soft.push(AllocationError::AlignmentFailure);
            }
            if self.free_buckets() == 0 {
                hard.push(AllocationError::OutOfMemory);
            }
        } else if k.is_bump() {
            if size == 0 {
                soft.push(AllocationError::SizeIsZero);
            }
            if k == Kind::ShmBump && align > self.max_align {
                soft.push(AllocationError::AlignmentFailure);
            }
            let pos = align_up(self.start + self.cursor, align) - self.start;
            if pos + size > self.cfg.region {
                hard.push(AllocationError::OutOfMemory);
            }
        } else {
            // one chunk: the single chunk starts at the aligned region start
            let pad = align_up(self.start, align) - self.start;
            if !self.live.is_empty() || pad > self.cfg.region || self.cfg.region - pad < size {
                hard.push(AllocationError::OutOfMemory);
            } else if self.cfg.region - pad == size {
                // not documented whether a request for exactly the available size succeeds
                either = true;
            }
        }
        (hard, soft, either)
    }

    fn apply_alloc(&mut self, size: usize, align: usize, zeroed: bool) -> Result<(), Fail> {
        let class = if size == 0 {
            "allocate size 0"
        } else if self.cfg.kind.is_pool() && size > self.cfg.bsize {
            "allocate size > bucket"
        } else if align > self.cfg.balign {
            "allocate align > unit align"
        } else {
            "allocate"
        };
        let (hard, soft, either) = self.alloc_reasons(size, align);
        let out = if self.cfg.kind == Kind::OneChunk {
            // region smaller than the alignment padding: `size - padding` underflows in allocate()
            match catch_unwind(AssertUnwindSafe(|| self.real_allocate(lay(size, align), zeroed))) {
                Ok(o) => o,
                Err(p) => {
                    let msg = p.downcast_ref::<&str>().map(|s| s.to_string()).or(p.downcast_ref::<String>().cloned()).unwrap_or_default();
                    if align_up(self.start, align) - self.start <= self.cfg.region {
                        return Err(Fail::new("panic", self.site(class), msg));
                    }
                    return Err(Fail::new(
                        "onechunk-padding-underflow",
                        "bb-memory OneChunkAllocator allocate region smaller than alignment padding",
                        format!("allocate(size {size}, align {align}) on a region of {} bytes whose start is misaligned by {} panicked: {msg} (release builds wrap around and return memory outside of the region)", self.cfg.region, self.cfg.mis),
                    ));
                }
            }
        } else {
            self.real_allocate(lay(size, align), zeroed)
        };
        match out {
            AllocOut::Ok { addr, off } => {
                ensure!(
                    hard.is_empty(),
                    "alloc-unsatisfiable-succeeded",
                    self.site(class),
                    "allocate(size {size}, align {align}) returned memory although the request cannot be satisfied (expected {:?}); live {}",
                    hard,
                    self.live.len()
                );
                self.check_geometry(addr, size, align, None, class)?;
                if self.cfg.kind.is_bump() {
                    ensure!(
                        addr - self.start >= self.cursor,
                        "alloc-overlap",
                        self.site(class),
                        "bump allocator handed out region offset {} below its high-water mark {}",
                        addr - self.start,
                        self.cursor
                    );
                    self.cursor = addr - self.start + size;
                }
                if zeroed {
                    let s = unsafe { std::slice::from_raw_parts(addr as *const u8, size) };
                    ensure!(s.iter().all(|b| *b == 0), "alloc-not-zeroed", self.site("allocate_zeroed"), "allocate_zeroed returned non-zero memory");
                }
                let pat = self.fill(addr, size);
                self.live.push(Live { addr, off, size, align, pat });
            }
            AllocOut::Err(e) => {
                if hard.is_empty() && soft.is_empty() && !either {
                    return Err(Fail::new(
                        "alloc-spurious-failure",
                        self.site(class),
                        format!(
                            "allocate(size {size}, align {align}) failed with {e:?} although the request is satisfiable ({} live allocations, region {}, unit {}/{})",
                            self.live.len(),
                            self.cfg.region,
                            self.cfg.bsize,
                            self.cfg.balign
                        ),
                    ));
                }
                let allowed = hard.contains(&e) || soft.contains(&e) || (either && e == AllocationError::OutOfMemory);
                ensure!(allowed, "alloc-wrong-error", self.site(class), "allocate(size {size}, align {align}) failed with {e:?}, documented for this situation: {:?} {:?}", hard, soft);
            }
        }
        self.check_memory(class)
    }

    fn apply_dealloc(&mut self, k: usize) -> Result<(), Fail> {
        let c = self.live[k].clone();
        self.real_deallocate(&c);
        if self.cfg.kind == Kind::ShmBump {
            // documented: deallocate of a bump allocator releases all chunks
            self.live.clear();
            self.cursor = 0;
        } else {
            self.live.remove(k);
        }
        // the released memory may be reused by the allocator for bookkeeping? no: it must stay out of the live chunks
        self.check_memory("deallocate")
    }

    fn apply_grow(&mut self, k: usize, size: usize, back: bool) -> Result<(), Fail> {
        let c = self.live[k].clone();
        let kind = self.cfg.kind;
        let place = if back { ContentPlacement::Back } else { ContentPlacement::Front };
        let mut allowed: Vec<AllocationGrowError> = Vec::new();
        if size < c.size {
            allowed.push(AllocationGrowError::GrowWouldShrink);
        }
        let last_chunk = kind == Kind::ShmBump && (c.addr - self.start) + c.size == self.cursor;
        match kind {
            Kind::OneChunk => {
                let pad = c.addr - self.start;
                if self.cfg.region - pad < size {
                    allowed.push(AllocationGrowError::OutOfMemory);
                }
            }
            Kind::ShmBump => {
                if size > c.size {
                    let fits = if last_chunk {
                        self.cursor + (size - c.size) <= self.cfg.region
                    } else {
                        align_up(self.start + self.cursor, c.align) - self.start + size <= self.cfg.region
                    };
                    if !fits {
                        allowed.push(AllocationGrowError::OutOfMemory);
                    }
                }
            }
            _ => {
                if size > self.cfg.bsize {
                    allowed.push(AllocationGrowError::OutOfMemory);
                }
            }
        }
        let what = if back { "grow back" } else { "grow front" };
        match self.real_grow(&c, lay(size, c.align), place) {
            Ok((addr, off)) => {
                ensure!(
                    allowed.is_empty(),
                    "grow-unsatisfiable-succeeded",
                    self.site(what),
                    "grow of allocation #{k} from {} to {size} bytes succeeded, expected {:?}",
                    c.size,
                    allowed
                );
                self.check_geometry(addr, size, c.align, Some(k), what)?;
                if kind != Kind::ShmBump {
                    ensure!(addr == c.addr, "grow-moved", self.site(what), "documented to return the input pointer, moved by {}", addr as isize - c.addr as isize);
                } else if addr != c.addr {
                    ensure!(addr - self.start >= self.cursor, "alloc-overlap", self.site(what), "grown chunk placed below the high-water mark");
                }
                // content preserved at the requested placement
                let s = unsafe { std::slice::from_raw_parts(addr as *const u8, size) };
                let kept = if back { &s[size - c.size..] } else { &s[..c.size] };
                ensure!(
                    kept.iter().all(|b| *b == c.pat),
                    "grow-content-lost",
                    self.site(what),
                    "after growing {} -> {size} bytes the old content is not at the {} of the chunk",
                    c.size,
                    if back { "back" } else { "front" }
                );
                if kind == Kind::ShmBump {
                    self.cursor = self.cursor.max(addr - self.start + size);
                }
                let pat = self.fill(addr, size);
                self.live[k] = Live { addr, off: if kind == Kind::ShmBump || kind == Kind::ShmPool { off } else { 0 }, size, align: c.align, pat };
            }
            Err(e) => {
                ensure!(
                    allowed.contains(&e),
                    if allowed.is_empty() { "grow-spurious-failure" } else { "grow-wrong-error" },
                    self.site(what),
                    "grow of allocation #{k} from {} to {size} bytes failed with {e:?}, documented for this situation: {:?}",
                    c.size,
                    allowed
                );
            }
        }
        self.check_memory(what)
    }

    fn apply_shrink(&mut self, k: usize, size: usize) -> Result<(), Fail> {
        let c = self.live[k].clone();
        let expect_err = size > c.size;
        match self.real_shrink(&c, lay(size, c.align)) {
            Ok(addr) => {
                ensure!(!expect_err, "shrink-grew", self.site("shrink"), "shrink from {} to {size} bytes succeeded", c.size);
                self.check_geometry(addr, size, c.align, Some(k), "shrink")?;
                let s = unsafe { std::slice::from_raw_parts(addr as *const u8, size) };
                ensure!(s.iter().all(|b| *b == c.pat), "shrink-content-lost", self.site("shrink"), "content changed by shrink {} -> {size}", c.size);
                self.live[k].addr = addr;
                self.live[k].size = size;
            }
            Err(e) => {
                ensure!(
                    expect_err && e == AllocationShrinkError::ShrinkWouldGrow,
                    "shrink-wrong-error",
                    self.site("shrink"),
                    "shrink from {} to {size} bytes failed with {e:?}",
                    c.size
                );
            }
        }
        self.check_memory("shrink")
    }
}

fn new_alloc_sys(cfg: &Geo) -> Result<ASys, Fail> {
    let guard = if 2 * cfg.balign <= 256 { 256 } else { 8192 };
    let total = guard + cfg.mis + cfg.region + guard;
    let buf = Buf::new(total, 8192, GUARD_BYTE);
    let start = buf.ptr as usize + guard + cfg.mis;
    unsafe { std::ptr::write_bytes(start as *mut u8, FILL_BYTE, cfg.region) };
    let start_ptr = unsafe { NonNull::new_unchecked(start as *mut u8) };
    let bl = lay(cfg.bsize, cfg.balign);
    let mgmt;
    let pad = align_up(start, cfg.balign) - start;
    let build = || -> Result<(Real, Option<Buf>), Fail> {
        Ok(match cfg.kind {
            Kind::Pool => {
                let need = PoolAllocator::memory_size(bl, cfg.region);
                let m = Buf::new(need + 64, 64, 0);
                let ma = BumpAllocator::new(unsafe { NonNull::new_unchecked(m.ptr) }, need);
                let mut a = Box::new(unsafe { PoolAllocator::new_uninit(bl, start_ptr, cfg.region) });
                if let Err(e) = unsafe { a.init(&ma) } {
                    return Err(Fail::new("init-failed", "Pool init", format!("init with the memory_size() it asked for ({need} bytes) failed: {e:?}")));
                }
                (Real::Pool(a), Some(m))
            }
            Kind::Fixed2 => (Real::Fixed2(Box::new(FixedSizePoolAllocator::<2>::new(bl, start_ptr, cfg.region))), None),
            Kind::Fixed8 => (Real::Fixed8(Box::new(FixedSizePoolAllocator::<8>::new(bl, start_ptr, cfg.region))), None),
            Kind::ShmPool => {
                let c = ShmPoolConfig { bucket_layout: bl };
                let need = ShmPool::management_size(cfg.region, &c);
                let m = Buf::new(need + 64, 64, 0);
                let ma = BumpAllocator::new(unsafe { NonNull::new_unchecked(m.ptr) }, need);
                let mem = NonNull::slice_from_raw_parts(start_ptr, cfg.region);
                let mut a = Box::new(unsafe { ShmPool::new_uninit(4096, mem, &c) });
                if let Err(e) = unsafe { a.init(&ma) } {
                    return Err(Fail::new("init-failed", "ShmPool init", format!("init with management_size() = {need} bytes failed: {e:?}")));
                }
                (Real::ShmPool(a), Some(m))
            }
            Kind::Bump => (Real::Bump(BumpAllocator::new(start_ptr, cfg.region)), None),
            Kind::ShmBump => {
                let mem = NonNull::slice_from_raw_parts(start_ptr, cfg.region);
                let ma = BumpAllocator::new(start_ptr, 0);
                let mut a = Box::new(unsafe { ShmBump::new_uninit(4096, mem, &Default::default()) });
                if let Err(e) = unsafe { a.init(&ma) } {
                    return Err(Fail::new("init-failed", "ShmBump init", format!("{e:?}")));
                }
                (Real::ShmBump(a), None)
            }
            Kind::OneChunk => (Real::OneChunk(OneChunkAllocator::new(start_ptr, cfg.region)), None),
        })
    };
    let real = if matches!(cfg.kind, Kind::Fixed2 | Kind::Fixed8) {
        // FixedSizePoolAllocator::new panics (expect) when the region has room for MAX_NUMBER_OF_BUCKETS
        // or more buckets: the bump allocator it builds over its inline index array is one entry short
        match catch_unwind(AssertUnwindSafe(build)) {
            Ok(r) => {
                let (r, m) = r?;
                mgmt = m;
                r
            }
            Err(p) => {
                let msg = p.downcast_ref::<&str>().map(|s| s.to_string()).or(p.downcast_ref::<String>().cloned()).unwrap_or_default();
                let cap = if cfg.kind == Kind::Fixed2 { 2 } else { 8 };
                let fit = cfg.region.saturating_sub(pad) / align_up(cfg.bsize, cfg.balign);
                if fit >= cap {
                    return Err(Fail::new(
                        "fixed-pool-new-panics-at-capacity",
                        "bb-memory FixedSizePoolAllocator new with room for MAX_NUMBER_OF_BUCKETS or more buckets",
                        format!("FixedSizePoolAllocator::<{cap}>::new(bucket layout {}/{}, region of {} bytes = room for {fit} buckets) panicked: {msg}", cfg.bsize, cfg.balign, cfg.region),
                    ));
                }
                return Err(Fail::new("panic", sys_site(cfg, "new"), msg));
            }
        }
    } else {
        let (r, m) = build()?;
        mgmt = m;
        r
    };
    let (nbuckets, max_align) = match &real {
        Real::Pool(a) => (a.number_of_buckets() as usize, a.max_alignment()),
        Real::Fixed2(a) => (a.number_of_buckets() as usize, a.max_alignment()),
        Real::Fixed8(a) => (a.number_of_buckets() as usize, a.max_alignment()),
        Real::ShmPool(a) => (a.number_of_buckets() as usize, a.max_alignment()),
        Real::ShmBump(a) => (0, a.max_alignment()),
        Real::OneChunk(_) => (1, usize::MAX),
        Real::Bump(_) => (0, usize::MAX),
    };
    let sys = ASys { cfg: cfg.clone(), buf, _mgmt: mgmt, start, real, live: Vec::new(), nbuckets, max_align, cursor: 0, next_pat: 1, steps: 0 };
    if cfg.kind.is_pool() {
        let avail = cfg.region.saturating_sub(pad);
        let cap = match cfg.kind {
            Kind::Fixed2 => 2,
            Kind::Fixed8 => 8,
            _ => usize::MAX,
        };
        ensure!(sys.max_align == cfg.balign, "pool-max-alignment", sys.site("new"), "max_alignment() = {} for bucket alignment {}", sys.max_align, cfg.balign);
        ensure!(
            nbuckets <= (avail / cfg.bsize).min(cap),
            "pool-too-many-buckets",
            sys.site("new"),
            "{nbuckets} buckets of {} bytes reported for {avail} usable bytes (cap {cap})",
            cfg.bsize
        );
        if cfg.bsize % cfg.balign == 0 {
            // the documented partitioning: as many buckets as fit behind the aligned start
            ensure!(
                nbuckets == (avail / cfg.bsize).min(cap),
                "pool-bucket-count",
                sys.site("new"),
                "{nbuckets} buckets reported, {} buckets of {} bytes fit into the {avail} usable bytes (cap {cap})",
                (avail / cfg.bsize).min(cap),
                cfg.bsize
            );
        }
    }
    sys.check_memory("new")?;
    Ok(sys)
}

fn sys_site(cfg: &Geo, what: &str) -> String {
    format!("{:?} {what}", cfg.kind)
}

fn request_layouts(cfg: &Geo) -> Vec<(usize, usize)> {
    let b = cfg.bsize;
    let a = cfg.balign;
    let mut v: Vec<(usize, usize)> = Vec::new();
    let mut add = |s: usize, al: usize| {
        if al <= 8192 && !v.contains(&(s, al)) {
            v.push((s, al));
        }
    };
    if cfg.full_ops {
        for s in [b, 1, 0, b.saturating_sub(1), b + 1] {
            for al in [a, 1, 2 * a] {
                add(s, al);
            }
        }
    } else {
        add(b, a);
        add(1, 1);
        add(b + 1, a);
        add(b, 2 * a);
        add(0, 1);
        if b > 2 {
            add(b - 1, a);
        }
    }
    v
}

fn alloc_enabled(s: &ASys) -> Vec<Op> {
    let cfg = &s.cfg;
    let mut v: Vec<Op> = Vec::new();
    for (size, align) in request_layouts(cfg) {
        v.push(Op::Alloc { size, align, zeroed: false });
    }
    if cfg.full_ops && cfg.kind != Kind::Bump && cfg.kind != Kind::ShmBump && cfg.kind != Kind::ShmPool {
        v.push(Op::Alloc { size: cfg.bsize, align: cfg.balign, zeroed: true });
    }
    match cfg.kind {
        Kind::Bump => v.push(Op::Reset),
        _ => {
            for k in 0..s.live.len() {
                v.push(Op::Dealloc(k));
            }
        }
    }
    if cfg.full_ops && cfg.kind != Kind::Bump {
        for (k, c) in s.live.iter().enumerate() {
            // equal sizes are left out: not documented whether grow/shrink to the same size is an error
            for target in [cfg.bsize, cfg.bsize + 1, c.size.saturating_sub(1)] {
                if target != c.size && (target > c.size || c.size > 0) {
                    let op = Op::Grow { k, size: target, back: false };
                    if !v.iter().any(|o| matches!(o, Op::Grow { k: k2, size: s2, back: false } if *k2 == k && *s2 == target)) {
                        v.push(op);
                    }
                }
            }
            if cfg.bsize > c.size {
                v.push(Op::Grow { k, size: cfg.bsize, back: true });
            }
            if matches!(cfg.kind, Kind::Pool | Kind::Fixed2 | Kind::Fixed8 | Kind::OneChunk) {
                if c.size > 0 {
                    v.push(Op::Shrink { k, size: c.size / 2 });
                }
                v.push(Op::Shrink { k, size: c.size + 1 });
            }
        }
    }
    v
}

fn alloc_apply(s: &mut ASys, op: &Op) -> Result<(), Fail> {
    s.steps += 1;
    match op {
        Op::Alloc { size, align, zeroed } => s.apply_alloc(*size, *align, *zeroed),
        Op::Dealloc(k) => s.apply_dealloc(*k),
        Op::Grow { k, size, back } => s.apply_grow(*k, *size, *back),
        Op::Shrink { k, size } => s.apply_shrink(*k, *size),
        Op::Reset => {
            if let Real::Bump(a) = &s.real {
                unsafe { a.reset() };
            }
            s.live.clear();
            s.cursor = 0;
            s.check_memory("reset")
        }
        Op::Port(_) | Op::Dyn(_) | Op::RrDyn(_) | Op::LoanBudget(_) | Op::Setup { .. } => unreachable!(),
    }
}

/// everything is released; a pool must then hand out every bucket again (freed memory is reusable)
fn alloc_finish(mut s: ASys) -> Result<(), Fail> {
    let kind = s.cfg.kind;
    if kind == Kind::Bump {
        return s.check_memory("finish");
    }
    while !s.live.is_empty() {
        let k = s.live.len() - 1;
        s.apply_dealloc(k)?;
    }
    if kind.is_pool() {
        for i in 0..s.nbuckets {
            match s.real_allocate(lay(s.cfg.bsize, 1), false) {
                AllocOut::Ok { addr, off } => {
                    s.check_geometry(addr, s.cfg.bsize, 1, None, "allocate after release")?;
                    let size = s.cfg.bsize;
                    let pat = s.fill(addr, size);
                    s.live.push(Live { addr, off, size, align: 1, pat });
                }
                AllocOut::Err(e) => {
                    return Err(Fail::new(
                        "freed-not-reusable",
                        s.site("allocate after release"),
                        format!("after releasing every allocation only {i} of {} buckets could be allocated again ({e:?})", s.nbuckets),
                    ));
                }
            }
        }
        s.check_memory("allocate after release")?;
        if let AllocOut::Ok { .. } = s.real_allocate(lay(s.cfg.bsize.min(1), 1), false) {
            return Err(Fail::new("alloc-unsatisfiable-succeeded", s.site("allocate after release"), format!("more than the reported {} buckets could be allocated", s.nbuckets)));
        }
        while let Some(c) = s.live.pop() {
            s.real_deallocate(&c);
        }
    }
    Ok(())
}

// ------------------------------------------------------------------------------------------

fn pool_region(bsize: usize, balign: usize, mis: usize, n: usize, partial: usize) -> usize {
    let pad = (balign - mis % balign) % balign;
    pad + n * align_up(bsize, balign) + partial
}

fn alloc_configs(tier: Tier) -> Vec<(Cfg, Plan)> {
    let quick = tier == Tier::Quick;
    let mut out: Vec<(Cfg, Plan)> = Vec::new();
    let sizes: &[usize] = &[1, 2, 3, 7, 8, 12, 16, 24, 33];
    let aligns: &[usize] = if quick { &[1, 2, 8, 64] } else { &[1, 2, 4, 8, 16, 64] };
    let mut layouts: Vec<(usize, usize)> = Vec::new();
    for &s in sizes {
        for &a in aligns {
            layouts.push((s, a));
        }
    }
    if quick {
        layouts.extend_from_slice(&[(24, 16), (12, 4), (3, 4)]);
    } else {
        layouts.extend_from_slice(&[(64, 64), (128, 64), (100, 8)]);
    }
    let miss_of = |balign: usize| {
        let mut miss = vec![0usize];
        if balign > 1 {
            miss.push(1);
        }
        if balign > 2 {
            miss.push(balign - 1);
        }
        miss
    };
    // NOTE: every plan depth below counts the leading Setup operation
    // ---- pool family, sweep alphabet
    let kinds: &[Kind] = &[Kind::Pool, Kind::ShmPool, Kind::Fixed8, Kind::Fixed2];
    for &kind in kinds {
        for &(bsize, balign) in &layouts {
            if quick && kind == Kind::Fixed8 && !(balign == 8 || bsize % balign != 0) {
                continue;
            }
            if kind == Kind::Fixed2 && !matches!((bsize, balign), (8, 8) | (3, 2) | (1, 1)) {
                continue;
            }
            let ns: &[usize] = if kind == Kind::Fixed2 {
                &[0, 1, 2, 3]
            } else if quick {
                &[0, 1, 2, 4]
            } else {
                &[0, 1, 2, 3, 4]
            };
            let mut geoms: Vec<(usize, usize)> = Vec::new();
            for &mis in &miss_of(balign) {
                for &n in ns {
                    let partials: Vec<usize> = if quick || bsize == 1 { vec![bsize - 1] } else { vec![0, bsize - 1] };
                    for partial in partials {
                        geoms.push((mis, pool_region(bsize, balign, mis, n, partial)));
                    }
                }
            }
            // thorough: one level deeper for a representative subset
            let deep = !quick && matches!(balign, 1 | 8) && matches!(bsize, 1 | 3 | 8 | 12 | 33) && kind != Kind::Fixed2;
            let depth = if quick { 4 } else if deep { 6 } else { 5 };
            let frontier = if quick { Some((500, 8)) } else { Some((8000, 10)) };
            let plan = Plan { tree_depth: 1 + depth, finish_prefixes: false, frontier, split: if deep { 6 } else { 1 } };
            out.push((Cfg::Alloc(ACfg { kind, bsize, balign, full_ops: false, geoms }), plan));
        }
        if kind == Kind::Fixed2 {
            continue;
        }
        // page alignment, few buckets
        let mut geoms = Vec::new();
        for &(n, mis) in &[(2usize, 1usize), (1, 4095), (2, 0)] {
            geoms.push((mis, pool_region(4096, 4096, mis, n, 7)));
        }
        out.push((Cfg::Alloc(ACfg { kind, bsize: 4096, balign: 4096, full_ops: false, geoms }), Plan::tree(1 + 4)));
        out.push((Cfg::Alloc(ACfg { kind, bsize: 100, balign: 4096, full_ops: false, geoms: vec![(0, pool_region(100, 4096, 0, 2, 7))] }), Plan::tree(1 + 4)));
    }
    // ---- pool family, full alphabet (every request layout, zeroed, grow, shrink), 1..2 buckets
    let full_layouts: &[(usize, usize)] = if quick { &[(8, 8), (3, 2)] } else { &[(8, 8), (3, 2), (1, 1), (12, 8)] };
    for &kind in &[Kind::Pool, Kind::ShmPool, Kind::Fixed8] {
        for &(bsize, balign) in full_layouts {
            for &(mis, n) in &[(1usize, 2usize), (0, 1)] {
                if kind == Kind::Fixed8 && n == 1 {
                    continue;
                }
                // quick: two buckets (the expensive case) once per allocator kind
                if quick && n == 2 && !matches!((kind, bsize), (Kind::Pool, 8) | (Kind::ShmPool, 3) | (Kind::Fixed8, 8)) {
                    continue;
                }
                let region = pool_region(bsize, balign, mis, n, bsize - 1);
                let plan = Plan { tree_depth: 1 + if quick { 4 } else { 5 }, finish_prefixes: false, frontier: None, split: 1 };
                out.push((Cfg::Alloc(ACfg { kind, bsize, balign, full_ops: true, geoms: vec![(mis, region)] }), plan));
            }
        }
    }
    // ---- bump allocators: unit (size, align), region for n units plus a partial one
    let units: &[(usize, usize)] = if quick { &[(1, 1), (3, 2), (8, 8), (12, 8), (33, 64)] } else { &[(1, 1), (3, 2), (7, 4), (8, 8), (12, 8), (24, 16), (33, 64)] };
    for &kind in &[Kind::Bump, Kind::ShmBump] {
        for &(bsize, balign) in units {
            let mut miss = vec![0usize, 1];
            if balign > 2 {
                miss.push(balign - 1);
            }
            let mut geoms = Vec::new();
            let mut full_geoms = Vec::new();
            for &mis in &miss {
                let ns: &[usize] = if quick { &[0, 1, 2, 4] } else { &[0, 1, 2, 3, 4] };
                for &n in ns {
                    let region = n * align_up(bsize, balign) + bsize / 2;
                    geoms.push((mis, region));
                    if kind == Kind::ShmBump && n >= 2 && (!quick || (n == 4 && mis == 1)) {
                        full_geoms.push((mis, region));
                    }
                }
            }
            let plan = Plan { tree_depth: 1 + if quick { 5 } else { 6 }, finish_prefixes: false, frontier: Some((2000, 10)), split: if quick { 1 } else { 4 } };
            out.push((Cfg::Alloc(ACfg { kind, bsize, balign, full_ops: false, geoms }), plan));
            if !full_geoms.is_empty() {
                let plan = Plan { tree_depth: 1 + if quick { 4 } else { 5 }, finish_prefixes: false, frontier: None, split: if quick { 1 } else { 6 } };
                out.push((Cfg::Alloc(ACfg { kind, bsize, balign, full_ops: true, geoms: full_geoms }), plan));
            }
        }
    }
    // ---- one chunk allocator
    for &(bsize, balign) in &[(8usize, 8usize), (5, 4)] {
        let mut geoms = Vec::new();
        for &mis in &[0usize, 1, balign - 1] {
            for &extra in &[0usize, 1, 2 * bsize] {
                let pad = (balign - mis % balign) % balign;
                geoms.push((mis, pad + bsize + extra));
            }
        }
        let plan = Plan { tree_depth: 1 + if quick { 4 } else { 5 }, finish_prefixes: false, frontier: None, split: if quick { 3 } else { 9 } };
        out.push((Cfg::Alloc(ACfg { kind: Kind::OneChunk, bsize, balign, full_ops: true, geoms }), plan));
    }
    // region smaller than the alignment padding of the request
    out.push((Cfg::Alloc(ACfg { kind: Kind::OneChunk, bsize: 8, balign: 8, full_ops: false, geoms: vec![(1, 3)] }), Plan::tree(1 + 2)));
    out
}

struct H;

impl Harness for H {
    type Cfg = Cfg;
    type Op = Op;
    type Sys = Sys;
    fn name(&self) -> &'static str {
        "h_alloc"
    }
    fn property(&self) -> &'static str {
        // `--prop C02`: only the request-response family (d), attributed to C02
        if seqx::selected_property().as_deref() == Some("C02") {
            "C02"
        } else {
            "C15"
        }
    }
    fn rule(&self) -> String {
        "(a) the first operation of every sequence builds the allocator over one of the region geometries of the configuration (start misaligned by 0/1/align-1, room for 0..4 buckets plus a partial one), followed by every sequence of allocate(size in {0,1,b-1,b,b+1} x align in {1,a,2a}) / allocate_zeroed / deallocate(k-th live) / grow / shrink / reset up to the tree depth on the real PoolAllocator, FixedSizePoolAllocator<2|8>, bb BumpAllocator, OneChunkAllocator, cal shm PoolAllocator and shm BumpAllocator for every bucket layout (sizes 1..33 and 100/128/4096 x alignments 1..64 and 4096, including sizes that are not multiples of the alignment), checked after every step against an interval model: inside the region, requested alignment, requested size writable (unique byte pattern per allocation, all live patterns and the guard zones verified after every step), pairwise disjoint, success iff the model has a free bucket / enough room, documented error variant otherwise, everything allocatable again after release. (b) every sequence of loan_slice(len in {1,2,5,9}; quick tier with a dynamic strategy: {1,5,9} / {5,9})+send / receive / drop held sample on a local publish-subscribe service with [u8] or [u64] payload, initial_max_slice_len(1) and AllocationStrategy Static/BestFit/PowerOfTwo: every held sample stays byte-identical across growth of the data segment, samples received after growth are correct, Static refuses a longer loan with ExceedsMaxLoanSize. (c) every sequence of allocate(size in {c, 2c+1, 8c}) / deallocate(k-th live) / grow(k-th live, to the next larger sizes) on the real resizable shared memory DynamicMemory<PoolAllocator> (process-local and posix shared memory; chunk hint c in {8,16}, 1..2 chunks hint; Static / BestFit / PowerOfTwo) with up to 4 live chunks: live chunks pairwise disjoint in memory (also across segments), 8-byte aligned, content of every live chunk intact after every step, grown chunk keeps its content, dynamic strategies never fail, Static refuses what exceeds the hints, everything allocatable again after release. (d) request-response with a dynamically growing response segment (BestFit / PowerOfTwo, initial_max_slice_len 1): after a checked prefix (two clients have sent a request each, the server holds both active requests) every sequence of respond(client, len in {1, 9[, 40]}) / receive(client) / release(client, k) / client vanishes / drop active request / Server::receive as connection update: every response received carries exactly the written bytes, held responses stay intact, a queued response of one client survives the disappearance of the other client and the server's clean-up, nothing panics (with --prop C02 this family and (e), attributed to C02). (e) --prop C02 only: publish-subscribe with a REDUCED data segment (override_sample_preallocation: 1..3 chunks, max_loaned_samples 1..3): every sequence of loan / send k-th loan / drop k-th loan / receive / drop held sample to depth 7 (9), every prefix finished: a loan fails with ExceedsMaxLoans exactly at the loan limit, with OutOfMemory exactly when every chunk is referenced, and succeeds otherwise - in particular after earlier OutOfMemory failures and after every reference is gone. A distinct state is the canonical model state (live allocations relative to the region start / queue and held samples).".into()
    }
    fn configs(&self, tier: Tier) -> Vec<(Cfg, Plan)> {
        if self.property() == "C02" {
            let mut v: Vec<(Cfg, Plan)> = rrdyn::configs(tier, true).into_iter().map(|(c, p)| (Cfg::RrDyn(c), p)).collect();
            v.extend(loanbudget::configs(tier).into_iter().map(|(c, p)| (Cfg::LoanBudget(c), p)));
            return v;
        }
        // the port-level workers run longest: queue them first
        let mut v: Vec<(Cfg, Plan)> = rrdyn::configs(tier, false).into_iter().map(|(c, p)| (Cfg::RrDyn(c), p)).collect();
        v.extend(port::configs(tier).into_iter().map(|(c, p)| (Cfg::Port(c), p)));
        v.extend(dynmem::configs(tier).into_iter().map(|(c, p)| (Cfg::Dyn(c), p)));
        v.extend(alloc_configs(tier));
        v
    }
    fn new_sys(&self, cfg: &Cfg) -> Result<Sys, Fail> {
        match cfg {
            Cfg::Alloc(c) => {
                iceoryx2_log::set_log_level(iceoryx2_log::LogLevel::Fatal);
                Ok(Sys::Alloc(Box::new(AShell { cfg: c.clone(), sys: None })))
            }
            Cfg::Port(c) => Ok(Sys::Port(Box::new(port::new_sys(c)?))),
            Cfg::Dyn(c) => Ok(Sys::Dyn(Box::new(dynmem::new_sys(c)?))),
            Cfg::RrDyn(c) => Ok(Sys::RrDyn(Box::new(rrdyn::new_sys(c)?))),
            Cfg::LoanBudget(c) => Ok(Sys::LoanBudget(Box::new(loanbudget::new_sys(c)?))),
        }
    }
    fn enabled(&self, s: &Sys) -> Vec<Op> {
        match s {
            Sys::Alloc(sh) => match &sh.sys {
                None => sh.cfg.geoms.iter().map(|(mis, region)| Op::Setup { mis: *mis, region: *region }).collect(),
                Some(s) => alloc_enabled(s),
            },
            Sys::Port(s) => port::enabled(s).into_iter().map(Op::Port).collect(),
            Sys::Dyn(s) => dynmem::enabled(s).into_iter().map(Op::Dyn).collect(),
            Sys::RrDyn(s) => rrdyn::enabled(s).into_iter().map(Op::RrDyn).collect(),
            Sys::LoanBudget(s) => loanbudget::enabled(s).into_iter().map(Op::LoanBudget).collect(),
        }
    }
    fn apply(&self, s: &mut Sys, op: &Op) -> Result<(), Fail> {
        match (s, op) {
            (Sys::Alloc(sh), Op::Setup { mis, region }) => {
                let c = &sh.cfg;
                let geo = Geo { kind: c.kind, bsize: c.bsize, balign: c.balign, mis: *mis, region: *region, full_ops: c.full_ops };
                sh.sys = Some(new_alloc_sys(&geo)?);
                Ok(())
            }
            (Sys::Alloc(sh), op) => alloc_apply(sh.sys.as_mut().expect("Setup is the first operation"), op),
            (Sys::Port(s), Op::Port(op)) => port::apply(s, op),
            (Sys::Dyn(s), Op::Dyn(op)) => dynmem::apply(s, op),
            (Sys::RrDyn(s), Op::RrDyn(op)) => rrdyn::apply(s, op),
            (Sys::LoanBudget(s), Op::LoanBudget(op)) => loanbudget::apply(s, op),
            _ => unreachable!(),
        }
    }
    fn finish(&self, s: Sys) -> Result<(), Fail> {
        match s {
            Sys::Alloc(sh) => match sh.sys {
                Some(s) => alloc_finish(s),
                None => Ok(()),
            },
            Sys::Port(s) => port::finish(*s),
            Sys::Dyn(s) => dynmem::finish(*s),
            Sys::RrDyn(s) => rrdyn::finish(*s),
            Sys::LoanBudget(s) => loanbudget::finish(*s),
        }
    }
    fn model_key(&self, s: &Sys) -> u64 {
        match s {
            Sys::Alloc(sh) => match &sh.sys {
                None => 0,
                Some(s) => {
                    let live: Vec<(usize, usize, usize)> = s.live.iter().map(|c| (c.addr - s.start, c.size, c.align)).collect();
                    seqx::hash_of(&(s.cfg.mis, s.cfg.region, live, s.cursor))
                }
            },
            Sys::Port(s) => port::model_key(s),
            Sys::Dyn(s) => dynmem::model_key(s),
            Sys::RrDyn(s) => rrdyn::model_key(s),
            Sys::LoanBudget(s) => loanbudget::model_key(s),
        }
    }
    fn nontrivial(&self, s: &Sys) -> bool {
        match s {
            Sys::Alloc(sh) => sh.sys.as_ref().map(|s| !s.live.is_empty() || s.cursor > 0).unwrap_or(false),
            Sys::Port(s) => port::nontrivial(s),
            Sys::Dyn(s) => dynmem::nontrivial(s),
            Sys::RrDyn(s) => rrdyn::nontrivial(s),
            Sys::LoanBudget(s) => loanbudget::nontrivial(s),
        }
    }
}

fn main() {
    seqx::main(H);
}
