//! (d) request-response with a dynamically growing RESPONSE data segment: two clients, one server
//! (`allocation_strategy` BestFit / PowerOfTwo, `initial_max_slice_len(1)`), slice responses.
//! Every response a client receives - before or after growth of the server's segment, before or
//! after the OTHER client vanished and the server cleaned up its connection - carries exactly the
//! bytes that were written; held responses stay intact until released; nothing panics.
//! Serves C15 (allocation across growth) and, with `--prop C02`, C02 (a chunk is not released or
//! reused while a client can still read it; request/response flavour).

use std::collections::VecDeque;
use std::sync::atomic::{AtomicU64, Ordering};

use iceoryx2::active_request::ActiveRequest;
use iceoryx2::pending_response::PendingResponse;
use iceoryx2::port::client::Client;
use iceoryx2::port::server::Server;
use iceoryx2::prelude::*;
use iceoryx2::response::Response;
use seqx::{ensure, Fail, Plan, Tier};
use serde::{Deserialize, Serialize};

type Svc = local::Service;

const RESPONSE_BUFFER: usize = 2;
const MAX_HELD: usize = 2;

#[derive(Clone, Copy, Debug, Serialize, Deserialize, PartialEq, Eq)]
pub enum Strategy {
    BestFit,
    PowerOfTwo,
}

#[derive(Clone, Debug, Serialize, Deserialize)]
pub struct RCfg {
    pub strategy: Strategy,
    /// response lengths (initial_max_slice_len is 1, so every longer response grows the segment)
    pub lens: Vec<usize>,
    /// both clients may vanish (false: only client 1, which halves the symmetric histories)
    pub both_vanish: bool,
    /// property the oracles are attributed to
    pub prop_c02: bool,
}

#[derive(Clone, Debug, Serialize, Deserialize, PartialEq, Eq)]
pub enum ROp {
    /// the server answers the active request of client c with a response of `len` bytes
    Respond { c: usize, len: usize },
    /// client c receives through its pending response and keeps the response
    Receive(usize),
    /// client c releases its k-th held response
    Release { c: usize, k: usize },
    /// client c vanishes: its held responses, its pending response and the client port are dropped
    Vanish(usize),
    /// the server drops the active request of client c
    DropActive(usize),
    /// Server::receive (no request is pending): the server updates its connections
    ServerUpdate,
}

struct ClientSide {
    held: Vec<(Response<Svc, [u8], ()>, u64, usize)>,
    pending: Option<PendingResponse<Svc, u64, (), [u8], ()>>,
    port: Option<Client<Svc, u64, (), [u8], ()>>,
}

pub struct RSys {
    cfg: RCfg,
    clients: Vec<ClientSide>,
    actives: Vec<Option<ActiveRequest<Svc, u64, (), [u8], ()>>>,
    server: Server<Svc, u64, (), [u8], ()>,
    _service: iceoryx2::service::port_factory::request_response::PortFactory<Svc, u64, (), [u8], ()>,
    _node: Node<Svc>,
    /// model: responses queued for client c (id, len), oldest first
    queue: Vec<VecDeque<(u64, usize)>>,
    next_id: u64,
    grown: bool,
}

static COUNTER: AtomicU64 = AtomicU64::new(0);

fn canary(id: u64, i: usize) -> u8 {
    (id as u8).wrapping_mul(41).wrapping_add(i as u8).wrapping_add(3)
}

fn setup(what: &str, e: impl core::fmt::Debug) -> Fail {
    Fail::new("rrdyn-setup", what.to_string(), format!("{e:?}"))
}

fn tag(cfg: &RCfg, c15: &'static str, c02: &'static str) -> &'static str {
    if cfg.prop_c02 {
        c02
    } else {
        c15
    }
}

pub fn new_sys(cfg: &RCfg) -> Result<RSys, Fail> {
    iceoryx2::prelude::set_log_level(LogLevel::Fatal);
    let n = COUNTER.fetch_add(1, Ordering::Relaxed);
    let name = format!("h_alloc_rr_{}_{}", std::process::id(), n);
    let node = NodeBuilder::new().create::<Svc>().map_err(|e| setup("node", e))?;
    let service = node
        .service_builder(&ServiceName::new(&name).map_err(|e| setup("service name", e))?)
        .request_response::<u64, [u8]>()
        .max_servers(1)
        .max_clients(2)
        .max_active_requests_per_client(1)
        .max_response_buffer_size(RESPONSE_BUFFER)
        .max_borrowed_responses_per_pending_response(MAX_HELD)
        .enable_safe_overflow_for_responses(false)
        .create()
        .map_err(|e| setup("service", e))?;
    let strategy = match cfg.strategy {
        Strategy::BestFit => AllocationStrategy::BestFit,
        Strategy::PowerOfTwo => AllocationStrategy::PowerOfTwo,
    };
    let server = service.server_builder().initial_max_slice_len(1).allocation_strategy(strategy).create().map_err(|e| setup("server", e))?;
    let mut clients = Vec::new();
    let mut actives = Vec::new();
    // checked prefix: both clients send their request, the server receives both
    for c in 0..2u64 {
        let port = service.client_builder().create().map_err(|e| setup("client", e))?;
        let pending = port.send_copy(c).map_err(|e| setup("request", e))?;
        let active = server.receive().map_err(|e| setup("server receive", e))?.ok_or_else(|| setup("server receive", "no request"))?;
        if *active.payload() != c {
            return Err(setup("server receive", format!("request of client {c} carries {}", *active.payload())));
        }
        clients.push(ClientSide { held: Vec::new(), pending: Some(pending), port: Some(port) });
        actives.push(Some(active));
    }
    Ok(RSys { cfg: cfg.clone(), clients, actives, server, _service: service, _node: node, queue: vec![VecDeque::new(), VecDeque::new()], next_id: 1, grown: false })
}

pub fn enabled(s: &RSys) -> Vec<ROp> {
    let mut v = Vec::new();
    for c in 0..2 {
        let alive = s.clients[c].port.is_some();
        if s.actives[c].is_some() && alive && s.queue[c].len() + s.clients[c].held.len() < RESPONSE_BUFFER {
            for len in &s.cfg.lens {
                v.push(ROp::Respond { c, len: *len });
            }
        }
    }
    for c in 0..2 {
        if s.clients[c].port.is_some() && s.clients[c].held.len() < MAX_HELD {
            v.push(ROp::Receive(c));
        }
    }
    for c in 0..2 {
        for k in 0..s.clients[c].held.len() {
            v.push(ROp::Release { c, k });
        }
    }
    for c in 0..2 {
        if s.clients[c].port.is_some() && (c == 1 || s.cfg.both_vanish) {
            v.push(ROp::Vanish(c));
        }
    }
    for c in 0..2 {
        if s.actives[c].is_some() && s.clients[c].port.is_none() {
            v.push(ROp::DropActive(c));
        }
    }
    v.push(ROp::ServerUpdate);
    v
}

fn check_held(s: &RSys, after: &str) -> Result<(), Fail> {
    for (c, side) in s.clients.iter().enumerate() {
        for (k, (r, id, len)) in side.held.iter().enumerate() {
            let p = r.payload();
            ensure!(p.len() == *len, tag(&s.cfg, "rr-held-response-changed", "c02-rr-held-response-changed"), format!("held response after {after}"), "client {c} held response #{k} (id {id}) has length {} instead of {len}", p.len());
            for (i, b) in p.iter().enumerate() {
                ensure!(
                    *b == canary(*id, i),
                    tag(&s.cfg, "rr-held-response-changed", "c02-rr-held-response-changed"),
                    format!("held response after {after}"),
                    "client {c} held response #{k} (id {id}, len {len}) reads {:#x} at index {i}, written was {:#x}",
                    b,
                    canary(*id, i)
                );
            }
        }
    }
    Ok(())
}

fn apply_inner(s: &mut RSys, op: &ROp) -> Result<(), Fail> {
    let after: String;
    match op {
        ROp::Respond { c, len } => {
            after = if *len > 1 && !s.grown { "respond (grows the segment)".into() } else { "respond".into() };
            let active = s.actives[*c].as_ref().expect("enabled");
            let id = s.next_id;
            let r = active.loan_slice(*len);
            let mut r = match r {
                Ok(r) => r,
                Err(e) => return Err(Fail::new(tag(&s.cfg, "rr-loan-failed", "c02-rr-loan-failed"), "ActiveRequest::loan_slice with a dynamic strategy".to_string(), format!("loan_slice({len}) failed with {e:?}"))),
            };
            ensure!(r.payload().len() == *len, "rr-loan-length", "ActiveRequest::loan_slice".to_string(), "loaned {} bytes instead of {len}", r.payload().len());
            for (i, b) in r.payload_mut().iter_mut().enumerate() {
                *b = canary(id, i);
            }
            match r.send() {
                Ok(()) => {}
                Err(e) => return Err(Fail::new(tag(&s.cfg, "rr-send-failed", "c02-rr-send-failed"), "ResponseMut::send".to_string(), format!("{e:?} (client alive, {} queued)", s.queue[*c].len()))),
            }
            s.next_id += 1;
            s.queue[*c].push_back((id, *len));
            if *len > 1 {
                s.grown = true;
            }
        }
        ROp::Receive(c) => {
            after = "receive".into();
            let pending = s.clients[*c].pending.as_ref().expect("alive client has its pending response");
            let r = pending.receive().map_err(|e| Fail::new(tag(&s.cfg, "rr-receive-failed", "c02-rr-receive-failed"), "PendingResponse::receive".to_string(), format!("{e:?}")))?;
            match (r, s.queue[*c].pop_front()) {
                (None, None) => {}
                (Some(resp), Some((id, len))) => s.clients[*c].held.push((resp, id, len)),
                (Some(resp), None) => {
                    return Err(Fail::new(tag(&s.cfg, "rr-receive-unexpected", "c02-rr-receive-unexpected"), "PendingResponse::receive".to_string(), format!("client {c} received a response of {} bytes although nothing is queued for it", resp.payload().len())));
                }
                (None, Some((id, len))) => {
                    return Err(Fail::new(
                        tag(&s.cfg, "rr-response-lost", "c02-rr-response-lost"),
                        "PendingResponse::receive".to_string(),
                        format!("response id {id} (len {len}) is queued for client {c} but receive returned None (other client alive: {})", s.clients[1 - *c].port.is_some()),
                    ));
                }
            }
        }
        ROp::Release { c, k } => {
            after = "release".into();
            let (r, _, _) = s.clients[*c].held.remove(*k);
            drop(r);
        }
        ROp::Vanish(c) => {
            after = "client vanished".into();
            s.clients[*c].held.clear();
            s.clients[*c].pending = None;
            s.clients[*c].port = None;
            s.queue[*c].clear();
        }
        ROp::DropActive(c) => {
            after = "active request dropped".into();
            s.actives[*c] = None;
        }
        ROp::ServerUpdate => {
            after = "server update".into();
            match s.server.receive() {
                Ok(None) => {}
                Ok(Some(a)) => return Err(Fail::new("rr-unexpected-request", "Server::receive".to_string(), format!("received a request carrying {} although none is pending", *a.payload()))),
                Err(e) => return Err(Fail::new(tag(&s.cfg, "rr-server-receive-failed", "c02-rr-server-receive-failed"), "Server::receive".to_string(), format!("{e:?}"))),
            }
        }
    }
    check_held(s, &after)
}

pub fn apply(s: &mut RSys, op: &ROp) -> Result<(), Fail> {
    let what = match op {
        ROp::Respond { .. } => "respond",
        ROp::Receive(_) => "receive",
        ROp::Release { .. } => "release",
        ROp::Vanish(_) => "client vanish",
        ROp::DropActive(_) => "drop active request",
        ROp::ServerUpdate => "server update",
    };
    let prop_c02 = s.cfg.prop_c02;
    match std::panic::catch_unwind(std::panic::AssertUnwindSafe(|| apply_inner(s, op))) {
        Ok(r) => r,
        Err(p) => Err(Fail::new(if prop_c02 { "c02-rr-panic" } else { "rr-panic" }, format!("request-response {what}"), crate::port::stable_panic_message(p))),
    }
}

pub fn finish(mut s: RSys) -> Result<(), Fail> {
    // everything that is still queued for a living client is readable and correct
    let prop_c02 = s.cfg.prop_c02;
    let r = std::panic::catch_unwind(std::panic::AssertUnwindSafe(|| -> Result<(), Fail> {
        s.server.receive().map_err(|e| Fail::new("rr-server-receive-failed", "Server::receive at the end".to_string(), format!("{e:?}")))?;
        for c in 0..2 {
            if s.clients[c].port.is_none() {
                continue;
            }
            s.clients[c].held.clear();
            while !s.queue[c].is_empty() {
                apply_inner(&mut s, &ROp::Receive(c))?;
                s.clients[c].held.clear();
            }
        }
        Ok(())
    }));
    match r {
        Ok(r) => r?,
        Err(p) => return Err(Fail::new(if prop_c02 { "c02-rr-panic" } else { "rr-panic" }, "request-response drain at the end".to_string(), crate::port::stable_panic_message(p))),
    }
    for side in s.clients.iter_mut() {
        side.held.clear();
        side.pending = None;
    }
    s.actives.clear();
    Ok(())
}

pub fn model_key(s: &RSys) -> u64 {
    let q: Vec<Vec<usize>> = s.queue.iter().map(|q| q.iter().map(|(_, l)| *l).collect()).collect();
    let h: Vec<Vec<usize>> = s.clients.iter().map(|c| c.held.iter().map(|(_, _, l)| *l).collect()).collect();
    let alive: Vec<bool> = s.clients.iter().map(|c| c.port.is_some()).collect();
    let act: Vec<bool> = s.actives.iter().map(|a| a.is_some()).collect();
    seqx::hash_of(&(q, h, alive, act, s.grown))
}

pub fn nontrivial(s: &RSys) -> bool {
    s.next_id > 1
}

pub fn configs(tier: Tier, prop_c02: bool) -> Vec<(RCfg, Plan)> {
    let q = tier == Tier::Quick;
    let mut v = Vec::new();
    for strategy in [Strategy::PowerOfTwo, Strategy::BestFit] {
        if q && prop_c02 && strategy == Strategy::BestFit {
            continue;
        }
        let plan = if q {
            Plan { tree_depth: 5, finish_prefixes: false, frontier: None, split: 6 }
        } else {
            Plan { tree_depth: 6, finish_prefixes: false, frontier: Some((400, 9)), split: 8 }
        };
        v.push((RCfg { strategy, lens: if q { vec![1, 9] } else { vec![1, 9, 40] }, both_vanish: !q, prop_c02 }, plan));
    }
    v
}
