//! (c) resizable shared memory level: `iceoryx2_cal::resizable_shared_memory::dynamic::DynamicMemory`
//! over the pool allocator – the data segment of ports with a dynamic allocation strategy.
//! Every sequence of allocate / deallocate / grow on the real object against a model of the live
//! chunks: pairwise disjoint in memory, requested size writable, content intact after every step
//! (own byte pattern per chunk), content of a grown chunk preserved, freed memory reusable.

use std::alloc::Layout;
use std::sync::atomic::{AtomicU64, Ordering};

use iceoryx2_bb_container::semantic_string::SemanticString;
use iceoryx2_bb_elementary::allocation_strategy::AllocationStrategy;
use iceoryx2_bb_elementary_traits::allocator::{Allocate, AllocationError, ContentPlacement, Deallocate, Grow};
use iceoryx2_bb_system_types::file_name::FileName;
use iceoryx2_cal::named_concept::NamedConceptBuilder;
use iceoryx2_cal::resizable_shared_memory::dynamic::DynamicMemory;
use iceoryx2_cal::resizable_shared_memory::{ResizableSharedMemory, ResizableSharedMemoryBuilder};
use iceoryx2_cal::shared_memory::{ShmPointer, SharedMemory};
use iceoryx2_cal::shm_allocator::pool_allocator::PoolAllocator;
use seqx::{ensure, Fail, Plan, Tier};
use serde::{Deserialize, Serialize};

#[derive(Clone, Copy, Debug, Serialize, Deserialize, PartialEq, Eq, Hash)]
pub enum Strategy {
    Static,
    BestFit,
    PowerOfTwo,
}

#[derive(Clone, Copy, Debug, Serialize, Deserialize, PartialEq, Eq, Hash)]
pub enum Backing {
    ProcessLocal,
    Posix,
}

#[derive(Clone, Debug, Serialize, Deserialize)]
pub struct DCfg {
    pub backing: Backing,
    pub strategy: Strategy,
    /// size of the chunk layout hint (alignment 8)
    pub chunk: usize,
    /// number of chunks hint
    pub chunks: usize,
    /// offer the fault operations Block / Unblock
    #[serde(default)]
    pub faults: bool,
}

#[derive(Clone, Debug, Serialize, Deserialize, PartialEq, Eq)]
pub enum DOp {
    Alloc(usize),
    Dealloc(usize),
    /// grow the k-th live chunk to `size` bytes (content placed at the front)
    Grow { k: usize, size: usize },
    /// fault: the name of the NEXT segment is occupied by a foreign shared memory, so that a
    /// growth cannot create its segment (the request must fail, the memory must stay usable)
    Block,
    /// the foreign shared memory goes away again
    Unblock,
}

struct Live {
    ptr: ShmPointer,
    size: usize,
    pattern: u8,
}

trait Mem {
    fn allocate(&self, l: Layout) -> Result<ShmPointer, AllocationError>;
    unsafe fn grow(&self, p: ShmPointer, old: Layout, new: Layout) -> Result<ShmPointer, String>;
    unsafe fn deallocate(&self, p: ShmPointer, l: Layout);
    fn segments(&self) -> usize;
    /// occupies the name of segment `id`; dropping the returned object frees it again
    fn block(&self, id: u8) -> Result<Box<dyn std::any::Any>, String>;
}

struct Dm<Shm: SharedMemory<PoolAllocator>>
where
    Shm::Builder: std::fmt::Debug,
{
    mem: DynamicMemory<PoolAllocator, Shm>,
    name: FileName,
}

impl<Shm: SharedMemory<PoolAllocator> + 'static> Mem for Dm<Shm>
where
    Shm::Builder: std::fmt::Debug,
{
    fn allocate(&self, l: Layout) -> Result<ShmPointer, AllocationError> {
        Allocate::allocate(&self.mem, l)
    }
    unsafe fn grow(&self, p: ShmPointer, old: Layout, new: Layout) -> Result<ShmPointer, String> {
        Grow::grow(&self.mem, p, old, new, ContentPlacement::Front).map_err(|e| format!("{e:?}"))
    }
    unsafe fn deallocate(&self, p: ShmPointer, l: Layout) {
        Deallocate::deallocate(&self.mem, p, l)
    }
    fn segments(&self) -> usize {
        ResizableSharedMemory::number_of_active_segments(&self.mem)
    }
    fn block(&self, id: u8) -> Result<Box<dyn std::any::Any>, String> {
        use iceoryx2_cal::shared_memory::SharedMemoryBuilder;
        let mut n = self.name;
        n.push_bytes(format!("__{id}").as_bytes()).map_err(|e| format!("{e:?}"))?;
        let b = <Shm as SharedMemory<PoolAllocator>>::Builder::new(&n)
            .size(64)
            .has_ownership(true)
            .create(&iceoryx2_cal::shm_allocator::pool_allocator::Config { bucket_layout: Layout::new::<u64>() })
            .map_err(|e| format!("{e:?}"))?;
        Ok(Box::new(b))
    }
}

pub struct DSys {
    cfg: DCfg,
    mem: Box<dyn Mem>,
    live: Vec<Live>,
    next_pattern: u8,
    /// id of the current segment (largest id seen in a returned pointer)
    cur_id: u8,
    blocker: Option<Box<dyn std::any::Any>>,
    /// a request was refused while the next segment was blocked
    refused_while_blocked: bool,
}

static COUNTER: AtomicU64 = AtomicU64::new(0);

fn lay(size: usize) -> Layout {
    Layout::from_size_align(size, 8).unwrap()
}

fn build<Shm: SharedMemory<PoolAllocator> + 'static>(cfg: &DCfg) -> Result<Box<dyn Mem>, Fail>
where
    Shm::Builder: std::fmt::Debug,
{
    let n = COUNTER.fetch_add(1, Ordering::Relaxed);
    let name = FileName::new(format!("halloc_dyn_{}_{}", std::process::id(), n).as_bytes()).map_err(|e| Fail::new("setup", "name", format!("{e:?}")))?;
    let strategy = match cfg.strategy {
        Strategy::Static => AllocationStrategy::Static,
        Strategy::BestFit => AllocationStrategy::BestFit,
        Strategy::PowerOfTwo => AllocationStrategy::PowerOfTwo,
    };
    let m = <DynamicMemory<PoolAllocator, Shm> as ResizableSharedMemory<PoolAllocator, Shm>>::MemoryBuilder::new(&name)
        .allocation_strategy(strategy)
        .max_chunk_layout_hint(lay(cfg.chunk))
        .max_number_of_chunks_hint(cfg.chunks)
        .create()
        .map_err(|e| Fail::new("setup", "DynamicMemory create", format!("{e:?}")))?;
    Ok(Box::new(Dm::<Shm> { mem: m, name }))
}

pub fn new_sys(cfg: &DCfg) -> Result<DSys, Fail> {
    iceoryx2_log::set_log_level(iceoryx2_log::LogLevel::Fatal);
    let mem = match cfg.backing {
        Backing::ProcessLocal => build::<iceoryx2_cal::shared_memory::process_local::Memory<PoolAllocator>>(cfg)?,
        Backing::Posix => build::<iceoryx2_cal::shared_memory::posix::Memory<PoolAllocator>>(cfg)?,
    };
    Ok(DSys { cfg: cfg.clone(), mem, live: Vec::new(), next_pattern: 1, cur_id: 0, blocker: None, refused_while_blocked: false })
}

pub fn sizes(cfg: &DCfg) -> Vec<usize> {
    vec![cfg.chunk, 2 * cfg.chunk + 1, 8 * cfg.chunk]
}

pub fn enabled(s: &DSys) -> Vec<DOp> {
    let mut v = Vec::new();
    if s.live.len() < 4 {
        for sz in sizes(&s.cfg) {
            v.push(DOp::Alloc(sz));
        }
    }
    for k in 0..s.live.len() {
        v.push(DOp::Dealloc(k));
    }
    for k in 0..s.live.len() {
        let cur = s.live[k].size;
        let mut targets: Vec<usize> = vec![cur + 8];
        targets.extend(sizes(&s.cfg).into_iter().filter(|t| *t > cur));
        targets.sort();
        targets.dedup();
        for t in targets.into_iter().take(2) {
            v.push(DOp::Grow { k, size: t });
        }
    }
    if s.cfg.faults && s.cfg.strategy != Strategy::Static {
        v.push(if s.blocker.is_some() { DOp::Unblock } else { DOp::Block });
    }
    v
}

fn fill(l: &Live) {
    unsafe { std::ptr::write_bytes(l.ptr.data_ptr, l.pattern, l.size) };
}

fn verify(s: &DSys, site: &str) -> Result<(), Fail> {
    for (i, a) in s.live.iter().enumerate() {
        let (a0, a1) = (a.ptr.data_ptr as usize, a.ptr.data_ptr as usize + a.size);
        ensure!(a0 % 8 == 0, "dyn-misaligned", site.to_string(), "chunk {} of size {} is not 8-byte aligned", i, a.size);
        for (j, b) in s.live.iter().enumerate().skip(i + 1) {
            let (b0, b1) = (b.ptr.data_ptr as usize, b.ptr.data_ptr as usize + b.size);
            ensure!(
                a1 <= b0 || b1 <= a0,
                "dyn-overlap",
                site.to_string(),
                "live chunks {} (size {}, segment {}) and {} (size {}, segment {}) overlap in memory",
                i,
                a.size,
                a.ptr.offset.segment_id().value(),
                j,
                b.size,
                b.ptr.offset.segment_id().value()
            );
        }
        let bytes = unsafe { std::slice::from_raw_parts(a.ptr.data_ptr, a.size) };
        ensure!(
            bytes.iter().all(|x| *x == a.pattern),
            "dyn-content",
            site.to_string(),
            "the content of live chunk {} (size {}, segment {}) changed",
            i,
            a.size,
            a.ptr.offset.segment_id().value()
        );
    }
    Ok(())
}

pub fn apply(s: &mut DSys, op: &DOp) -> Result<(), Fail> {
    // the repository's fatal_panic! dumps whole objects (names with the pid): keep a stable text
    let what = match op {
        DOp::Alloc(_) => "allocate",
        DOp::Dealloc(_) => "deallocate",
        DOp::Grow { .. } => "grow",
        DOp::Block | DOp::Unblock => "fault",
    };
    match std::panic::catch_unwind(std::panic::AssertUnwindSafe(|| apply_inner(s, op))) {
        Ok(r) => r,
        Err(p) => Err(Fail::new("dyn-panic", format!("DynamicMemory {what}"), crate::port::stable_panic_message(p))),
    }
}

fn apply_inner(s: &mut DSys, op: &DOp) -> Result<(), Fail> {
    if matches!(op, DOp::Block | DOp::Unblock) {
        return apply_fault(s, op);
    }
    match op {
        DOp::Block | DOp::Unblock => unreachable!(),
        DOp::Alloc(size) => {
            let site = "DynamicMemory allocate";
            match s.mem.allocate(lay(*size)) {
                Ok(ptr) => {
                    ensure!(s.cfg.strategy != Strategy::Static || *size <= s.cfg.chunk, "dyn-static-grew", site, "Static strategy handed out {} bytes, chunk layout hint is {}", size, s.cfg.chunk);
                    s.cur_id = s.cur_id.max(ptr.offset.segment_id().value());
                    let l = Live { ptr, size: *size, pattern: s.next_pattern };
                    s.next_pattern = s.next_pattern.wrapping_add(1).max(1);
                    fill(&l);
                    s.live.push(l);
                }
                Err(e) => {
                    // Static: more chunks than the hint, or a larger chunk, are refused
                    let legit = (s.cfg.strategy == Strategy::Static && (*size > s.cfg.chunk || s.live.len() >= s.cfg.chunks)) || s.blocker.is_some();
                    if s.blocker.is_some() {
                        s.refused_while_blocked = true;
                    }
                    ensure!(legit, "dyn-alloc-failed", site, "allocate({}) failed with {:?}; {} live chunks, strategy {:?}", size, e, s.live.len(), s.cfg.strategy);
                }
            }
            verify(s, site)
        }
        DOp::Dealloc(k) => {
            let l = s.live.remove(*k);
            unsafe { s.mem.deallocate(l.ptr, lay(l.size)) };
            verify(s, "DynamicMemory deallocate")
        }
        DOp::Grow { k, size } => {
            let site = "DynamicMemory grow";
            let old = &s.live[*k];
            let (old_size, pattern, old_ptr) = (old.size, old.pattern, old.ptr);
            match unsafe { s.mem.grow(old_ptr, lay(old_size), lay(*size)) } {
                Ok(ptr) => {
                    ensure!(s.cfg.strategy != Strategy::Static || *size <= s.cfg.chunk, "dyn-static-grew", site, "Static strategy grew a chunk to {} bytes, chunk layout hint is {}", size, s.cfg.chunk);
                    s.cur_id = s.cur_id.max(ptr.offset.segment_id().value());
                    let kept = unsafe { std::slice::from_raw_parts(ptr.data_ptr, old_size) };
                    let intact = kept.iter().all(|x| *x == pattern);
                    s.live[*k] = Live { ptr, size: *size, pattern };
                    ensure!(intact, "dyn-grow-lost-content", site, "grow from {} to {} bytes did not keep the old content at the front", old_size, size);
                    // the other chunks must be untouched BEFORE the grown one is written
                    let others: Vec<usize> = (0..s.live.len()).filter(|i| i != k).collect();
                    for i in others {
                        let a = &s.live[i];
                        let bytes = unsafe { std::slice::from_raw_parts(a.ptr.data_ptr, a.size) };
                        ensure!(bytes.iter().all(|x| *x == a.pattern), "dyn-content", site, "growing chunk {} changed the content of live chunk {}", k, i);
                    }
                    fill(&s.live[*k]);
                }
                Err(e) => {
                    let legit = s.cfg.strategy == Strategy::Static || s.blocker.is_some();
                    if s.blocker.is_some() {
                        s.refused_while_blocked = true;
                    }
                    ensure!(legit, "dyn-grow-failed", site, "grow from {} to {} bytes failed with {}; strategy {:?}", old_size, size, e, s.cfg.strategy);
                }
            }
            verify(s, site)
        }
    }
}

fn apply_fault(s: &mut DSys, op: &DOp) -> Result<(), Fail> {
    match op {
        DOp::Block => {
            let id = s.cur_id.wrapping_add(1);
            match s.mem.block(id) {
                Ok(b) => s.blocker = Some(b),
                Err(e) => return Err(Fail::new("setup", "blocker", e)),
            }
            verify(s, "next segment name occupied")
        }
        DOp::Unblock => {
            s.blocker = None;
            // whatever was refused meanwhile, the memory is still there: at least one segment, and
            // (checked by the following operations) every request of a dynamic strategy succeeds again
            ensure!(s.mem.segments() >= 1, "dyn-segment-lost", "after a growth that could not create its segment", "number_of_active_segments() is {}", s.mem.segments());
            verify(s, "next segment name free again")
        }
        _ => unreachable!(),
    }
}

pub fn finish(s: DSys) -> Result<(), Fail> {
    match std::panic::catch_unwind(std::panic::AssertUnwindSafe(move || finish_inner(s))) {
        Ok(r) => r,
        Err(p) => Err(Fail::new("dyn-panic", "DynamicMemory release of everything / refill".to_string(), crate::port::stable_panic_message(p))),
    }
}

fn finish_inner(mut s: DSys) -> Result<(), Fail> {
    s.blocker = None;
    while let Some(l) = s.live.pop() {
        unsafe { s.mem.deallocate(l.ptr, lay(l.size)) };
        verify(&s, "DynamicMemory deallocate (finish)")?;
    }
    // everything is free again: the hinted number of hinted chunks can be allocated
    let mut got = Vec::new();
    for _ in 0..s.cfg.chunks {
        match s.mem.allocate(lay(s.cfg.chunk)) {
            Ok(p) => got.push(p),
            Err(e) => return Err(Fail::new("dyn-not-reusable", "DynamicMemory allocate after everything was released", format!("{e:?} after {} of {} chunks", got.len(), s.cfg.chunks))),
        }
    }
    for p in got {
        unsafe { s.mem.deallocate(p, lay(s.cfg.chunk)) };
    }
    Ok(())
}

pub fn model_key(s: &DSys) -> u64 {
    let v: Vec<(usize, u8)> = s.live.iter().map(|l| (l.size, l.ptr.offset.segment_id().value())).collect();
    seqx::hash_of(&(v, s.mem.segments(), s.blocker.is_some(), s.refused_while_blocked))
}

pub fn nontrivial(s: &DSys) -> bool {
    !s.live.is_empty()
}

pub fn configs(tier: Tier) -> Vec<(DCfg, Plan)> {
    let q = tier == Tier::Quick;
    let mut v = Vec::new();
    for strategy in [Strategy::PowerOfTwo, Strategy::BestFit, Strategy::Static] {
        for (chunk, chunks) in [(8usize, 1usize), (8, 2), (16, 2)] {
            let depth = if q { 4 } else { 5 };
            v.push((DCfg { backing: Backing::ProcessLocal, strategy, chunk, chunks, faults: false }, Plan { tree_depth: depth, finish_prefixes: false, frontier: Some((if q { 150 } else { 600 }, if q { 6 } else { 8 })), split: if q { 1 } else { 4 } }));
        }
    }
    // fault: the next segment cannot be created while `Block` is in effect
    for (backing, strategy) in [(Backing::ProcessLocal, Strategy::BestFit), (Backing::Posix, Strategy::PowerOfTwo)] {
        let posix = backing == Backing::Posix;
        v.push((
            DCfg { backing, strategy, chunk: 8, chunks: 1, faults: true },
            Plan { tree_depth: if q { if posix { 4 } else { 5 } } else { 6 }, finish_prefixes: false, frontier: Some((if q { 150 } else { 500 }, if q { 7 } else { 9 })), split: if q { 3 } else { 6 } },
        ));
    }
    for strategy in [Strategy::PowerOfTwo, Strategy::BestFit] {
        v.push((DCfg { backing: Backing::Posix, strategy, chunk: 8, chunks: 2, faults: false }, Plan { tree_depth: if q { 3 } else { 4 }, finish_prefixes: false, frontier: None, split: if q { 2 } else { 6 } }));
    }
    v
}
