//! C15 (b): a subscriber holds samples while the publisher's dynamically sized data segment grows.

use std::collections::VecDeque;
use std::sync::atomic::{AtomicU64, Ordering};

use iceoryx2::port::publisher::Publisher;
use iceoryx2::port::subscriber::Subscriber;
use iceoryx2::port::LoanError;
use iceoryx2::prelude::*;
use iceoryx2::sample::Sample;
use iceoryx2::service::port_factory::publish_subscribe::PortFactory;
use seqx::{ensure, Fail, Plan, Tier};
use serde::{Deserialize, Serialize};

type Svc = local::Service;

const BUFFER: usize = 3;
const MAX_BORROW: usize = 3;

#[derive(Clone, Copy, Debug, Serialize, Deserialize, PartialEq, Eq)]
pub enum Strategy {
    Static,
    BestFit,
    PowerOfTwo,
}

#[derive(Clone, Debug, Serialize, Deserialize)]
pub struct PCfg {
    strategy: Strategy,
    /// element type of the slice payload: 1 = u8, 8 = u64
    elem: u8,
    /// slice lengths that are loaned (initial_max_slice_len is 1)
    lens: Vec<usize>,
}

#[derive(Clone, Debug, Serialize, Deserialize)]
pub enum POp {
    /// loan_slice(len), write the canary of this send, send
    Send(usize),
    Receive,
    DropHeld(usize),
}

pub trait Elem: core::fmt::Debug + Default + Copy + PartialEq + ZeroCopySend + 'static {
    fn canary(id: u64, i: usize) -> Self;
    /// values read back may be arbitrary garbage: printed as 0x.. so that the replay comparison of
    /// the engine (which masks hexadecimal numbers) stays deterministic
    fn hex(&self) -> String;
}
impl Elem for u8 {
    fn canary(id: u64, i: usize) -> u8 {
        (id as u8).wrapping_mul(37).wrapping_add(i as u8).wrapping_add(1)
    }
    fn hex(&self) -> String {
        format!("{:#x}", self)
    }
}
impl Elem for u64 {
    fn canary(id: u64, i: usize) -> u64 {
        0xA5A5_0000_0000_0000 ^ (id << 16) ^ i as u64
    }
    fn hex(&self) -> String {
        format!("{:#x}", self)
    }
}

pub struct Port<T: Elem> {
    held: Vec<(Sample<Svc, [T], ()>, u64, usize)>,
    subscriber: Subscriber<Svc, [T], ()>,
    publisher: Publisher<Svc, [T], ()>,
    _service: PortFactory<Svc, [T], ()>,
    _node: Node<Svc>,
}

pub enum Ports {
    U8(Port<u8>),
    U64(Port<u64>),
}

pub struct PSys {
    cfg: PCfg,
    ports: Ports,
    /// model: (send id, len) in the subscriber's buffer, oldest first
    queue: VecDeque<(u64, usize)>,
    /// model: held samples
    held: Vec<(u64, usize)>,
    next_id: u64,
    max_len_sent: usize,
}

static COUNTER: AtomicU64 = AtomicU64::new(0);

fn fail_new(what: &str, e: impl core::fmt::Debug) -> Fail {
    Fail::new("port-setup", what.to_string(), format!("{e:?}"))
}

fn build<T: Elem>(cfg: &PCfg) -> Result<Port<T>, Fail> {
    let n = COUNTER.fetch_add(1, Ordering::Relaxed);
    let name = format!("h_alloc_{}_{}", std::process::id(), n);
    let node = NodeBuilder::new().create::<Svc>().map_err(|e| fail_new("node", e))?;
    let service = node
        .service_builder(&ServiceName::new(&name).map_err(|e| fail_new("service name", e))?)
        .publish_subscribe::<[T]>()
        .max_publishers(1)
        .max_subscribers(1)
        .history_size(0)
        .subscriber_max_buffer_size(BUFFER)
        .subscriber_max_borrowed_samples(MAX_BORROW)
        .enable_safe_overflow(true)
        .create()
        .map_err(|e| fail_new("service", e))?;
    let strategy = match cfg.strategy {
        Strategy::Static => AllocationStrategy::Static,
        Strategy::BestFit => AllocationStrategy::BestFit,
        Strategy::PowerOfTwo => AllocationStrategy::PowerOfTwo,
    };
    let publisher = service
        .publisher_builder()
        .initial_max_slice_len(1)
        .allocation_strategy(strategy)
        .create()
        .map_err(|e| fail_new("publisher", e))?;
    let subscriber = service.subscriber_builder().create().map_err(|e| fail_new("subscriber", e))?;
    Ok(Port { held: Vec::new(), subscriber, publisher, _service: service, _node: node })
}

pub fn new_sys(cfg: &PCfg) -> Result<PSys, Fail> {
    iceoryx2::prelude::set_log_level(LogLevel::Fatal);
    let ports = if cfg.elem == 1 { Ports::U8(build::<u8>(cfg)?) } else { Ports::U64(build::<u64>(cfg)?) };
    Ok(PSys { cfg: cfg.clone(), ports, queue: VecDeque::new(), held: Vec::new(), next_id: 1, max_len_sent: 1 })
}

pub fn configs(tier: Tier) -> Vec<(PCfg, Plan)> {
    // one execution with a dynamic data segment costs ~25 ms (publisher and subscriber each build a
    // 256-entry segment table), so the depth is what the time budget allows
    let quick = tier == Tier::Quick;
    let mut v = Vec::new();
    for strategy in [Strategy::Static, Strategy::BestFit, Strategy::PowerOfTwo] {
        for elem in [1u8, 8u8] {
            let dynamic = strategy != Strategy::Static;
            if quick && ((strategy == Strategy::Static && elem == 8) || (strategy == Strategy::BestFit && elem == 8) || (strategy == Strategy::PowerOfTwo && elem == 1)) {
                continue;
            }
            let plan = if quick {
                Plan { tree_depth: if dynamic { 4 } else { 5 }, finish_prefixes: false, frontier: None, split: if dynamic { 4 } else { 1 } }
            } else {
                Plan { tree_depth: if dynamic { 5 } else { 6 }, finish_prefixes: false, frontier: if dynamic { Some((250, 8)) } else { None }, split: if dynamic { 5 } else { 2 } }
            };
            let lens = if !(quick && dynamic) {
                vec![1, 2, 5, 9]
            } else if strategy == Strategy::BestFit {
                vec![1, 5, 9]
            } else {
                vec![5, 9]
            };
            v.push((PCfg { strategy, elem, lens }, plan));
        }
    }
    v
}

pub fn enabled(s: &PSys) -> Vec<POp> {
    let mut v: Vec<POp> = s.cfg.lens.iter().map(|l| POp::Send(*l)).collect();
    if s.held.len() < MAX_BORROW {
        v.push(POp::Receive);
    }
    for k in 0..s.held.len() {
        v.push(POp::DropHeld(k));
    }
    v
}

fn check_held<T: Elem>(p: &Port<T>, model: &[(u64, usize)], after: &str) -> Result<(), Fail> {
    ensure!(p.held.len() == model.len(), "port-model", after.to_string(), "held {} model {}", p.held.len(), model.len());
    for (k, (sample, id, len)) in p.held.iter().enumerate() {
        let payload = sample.payload();
        ensure!(
            payload.len() == *len,
            "held-sample-changed",
            format!("held sample after {after}"),
            "held sample #{k} (send {id}) has length {} instead of {len}",
            payload.len()
        );
        for (i, v) in payload.iter().enumerate() {
            ensure!(
                *v == T::canary(*id, i),
                "held-sample-changed",
                format!("held sample after {after}"),
                "held sample #{k} (send {id}, len {len}) reads {} at index {i}, written was {}",
                v.hex(),
                T::canary(*id, i).hex()
            );
        }
    }
    Ok(())
}

fn apply_t<T: Elem>(p: &mut Port<T>, cfg: &PCfg, queue: &mut VecDeque<(u64, usize)>, held: &mut Vec<(u64, usize)>, next_id: &mut u64, max_len: &mut usize, op: &POp) -> Result<(), Fail> {
    let after;
    match op {
        POp::Send(len) => {
            after = if *len > *max_len { "send (grows the segment)" } else { "send" };
            match p.publisher.loan_slice(*len) {
                Ok(mut sample) => {
                    ensure!(
                        cfg.strategy != Strategy::Static || *len <= 1,
                        "static-loan-too-long-succeeded",
                        "loan_slice with AllocationStrategy::Static".to_string(),
                        "loan_slice({len}) succeeded although initial_max_slice_len is 1"
                    );
                    let id = *next_id;
                    *next_id += 1;
                    ensure!(sample.payload().len() == *len, "loan-length", "loan_slice".to_string(), "loaned {} elements instead of {len}", sample.payload().len());
                    ensure!(
                        (sample.payload().as_ptr() as usize) % core::mem::align_of::<T>() == 0,
                        "loan-misaligned",
                        "loan_slice".to_string(),
                        "payload pointer not aligned for the element type"
                    );
                    for (i, v) in sample.payload_mut().iter_mut().enumerate() {
                        *v = T::canary(id, i);
                    }
                    match sample.send() {
                        Ok(n) => ensure!(n == 1, "send-count", "send".to_string(), "delivered to {n} subscribers"),
                        Err(e) => return Err(Fail::new("send-failed", "send".to_string(), format!("{e:?}"))),
                    }
                    if queue.len() == BUFFER {
                        queue.pop_front();
                    }
                    queue.push_back((id, *len));
                    *max_len = (*max_len).max(*len);
                }
                Err(e) => {
                    ensure!(
                        cfg.strategy == Strategy::Static && *len > 1 && e == LoanError::ExceedsMaxLoanSize,
                        "loan-failed",
                        format!("loan_slice with AllocationStrategy::{:?}", cfg.strategy),
                        "loan_slice({len}) failed with {e:?}"
                    );
                }
            }
        }
        POp::Receive => {
            after = "receive";
            let r = p.subscriber.receive().map_err(|e| Fail::new("receive-failed", "receive".to_string(), format!("{e:?}")))?;
            match (r, queue.pop_front()) {
                (None, None) => {}
                (Some(sample), Some((id, len))) => {
                    p.held.push((sample, id, len));
                    held.push((id, len));
                }
                (Some(sample), None) => {
                    return Err(Fail::new("receive-unexpected", "receive".to_string(), format!("received a sample of length {} although nothing is pending", sample.payload().len())));
                }
                (None, Some((id, len))) => {
                    return Err(Fail::new("receive-lost", "receive".to_string(), format!("send {id} (len {len}) is pending but receive returned None")));
                }
            }
        }
        POp::DropHeld(k) => {
            after = "drop sample";
            let (sample, _, _) = p.held.remove(*k);
            drop(sample);
            held.remove(*k);
        }
    }
    // freshly received samples are checked here as well (they are the last element of `held`)
    check_held(p, held, after)
}

/// Panic messages of the repository dump whole objects (addresses, unique ids); the engine compares
/// the replay output textually, so only the digit-free beginning of the message is kept.
pub fn stable_panic_message(p: Box<dyn std::any::Any + Send>) -> String {
    let msg = p.downcast_ref::<&str>().map(|s| s.to_string()).or(p.downcast_ref::<String>().cloned()).unwrap_or_default();
    let tail = msg.rsplit("} ").next().unwrap_or(&msg).to_string();
    let mut out: String = tail.chars().filter(|c| !c.is_ascii_digit()).collect();
    out.truncate(300);
    out
}

pub fn apply(s: &mut PSys, op: &POp) -> Result<(), Fail> {
    let what = match op {
        POp::Send(_) => "loan_slice + send",
        POp::Receive => "receive",
        POp::DropHeld(_) => "drop sample",
    };
    let r = std::panic::catch_unwind(std::panic::AssertUnwindSafe(|| {
        let PSys { cfg, ports, queue, held, next_id, max_len_sent } = s;
        match ports {
            Ports::U8(p) => apply_t(p, cfg, queue, held, next_id, max_len_sent, op),
            Ports::U64(p) => apply_t(p, cfg, queue, held, next_id, max_len_sent, op),
        }
    }));
    match r {
        Ok(r) => r,
        Err(p) => Err(Fail::new("panic", format!("port {what}"), stable_panic_message(p))),
    }
}

fn finish_t<T: Elem>(mut p: Port<T>, queue: &mut VecDeque<(u64, usize)>) -> Result<(), Fail> {
    // drain: everything still pending must be readable and correct after all the growth
    p.held.clear();
    let mut model: Vec<(u64, usize)> = Vec::new();
    while let Some((id, len)) = queue.pop_front() {
        match p.subscriber.receive() {
            Ok(Some(sample)) => {
                p.held.push((sample, id, len));
                model.push((id, len));
            }
            other => return Err(Fail::new("receive-lost", "receive at the end".to_string(), format!("send {id} (len {len}) pending, receive returned {:?}", other.map(|o| o.is_some())))),
        }
    }
    check_held(&p, &model, "drain")?;
    p.held.clear();
    drop(p);
    Ok(())
}

pub fn finish(s: PSys) -> Result<(), Fail> {
    let PSys { ports, mut queue, .. } = s;
    match ports {
        Ports::U8(p) => finish_t(p, &mut queue),
        Ports::U64(p) => finish_t(p, &mut queue),
    }
}

pub fn model_key(s: &PSys) -> u64 {
    let q: Vec<usize> = s.queue.iter().map(|(_, l)| *l).collect();
    let h: Vec<usize> = s.held.iter().map(|(_, l)| *l).collect();
    seqx::hash_of(&(q, h, s.max_len_sent))
}

pub fn nontrivial(s: &PSys) -> bool {
    s.next_id > 1
}
