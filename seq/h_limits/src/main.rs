//! h_limits – property C08, clause "every attempt to exceed a limit (one port, node … too many) is
//! rejected with the specific documented error, has no side effect, and succeeds again as soon as
//! capacity is freed" for the PORT and NODE limits of all four messaging patterns, and for events
//! additionally the event id bound.
//!
//! One configuration = messaging pattern x service variant x (max ports of the sending role, max
//! ports of the receiving role, max_nodes [, event_id_max_value]).  Node 0 creates the service with
//! exactly these limits in an isolated domain (own root path + prefix per execution).  The
//! operations are: a further node opens the service, a node drops its handle (and with it the
//! ports it created), a port of either role is created through the handle of a node, the k-th
//! live port of a role is dropped, and (events) a notification with an id in {0, max, max+1}.
//!
//! Reference model: which nodes hold a handle and the live ports per role with their owner node.
//! The model decides the expected result of every call: within the limit -> Ok, one too many ->
//! exactly the documented error variant.  After EVERY step (also after a refused one) the harness
//! compares with the model what the service reports through every live handle (number of ports
//! per role of the dynamic config, listed ports, the nodes listed by `PortFactory::nodes`), and
//! every live port performs one round of its characteristic operation.  A refused call must leave
//! the files / shared-memory objects of the domain exactly as they were (ipc).  `finish` drops
//! everything except the creator handle, fills every role and the node table up to its limit again
//! (must succeed), tries one more of each (must be refused again), and drops everything.
//!
//! What the model deliberately does NOT demand (undocumented): whether a node whose handle is gone
//! but whose ports live still counts as a node of the service (DropHandle drops the ports of the
//! node first); anything about ports of killed processes.

use std::sync::atomic::{AtomicU64, Ordering};

use iceoryx2::port::client::Client;
use iceoryx2::port::listener::Listener;
use iceoryx2::port::notifier::Notifier;
use iceoryx2::port::publisher::Publisher;
use iceoryx2::port::reader::Reader;
use iceoryx2::port::server::Server;
use iceoryx2::port::subscriber::Subscriber;
use iceoryx2::port::writer::Writer;
use iceoryx2::prelude::*;
use iceoryx2::service::port_factory::{blackboard, event, publish_subscribe, request_response};
use seqx::{ensure, Fail, Harness, Plan, Tier};
use serde::{Deserialize, Serialize};

#[derive(Clone, Copy, Debug, Serialize, Deserialize, PartialEq, Eq, Hash)]
pub enum Pattern {
    PublishSubscribe,
    Event,
    RequestResponse,
    Blackboard,
}

#[derive(Clone, Copy, Debug, Serialize, Deserialize, PartialEq, Eq, Hash)]
pub enum Variant {
    Local,
    Ipc,
}

#[derive(Clone, Debug, Serialize, Deserialize)]
pub struct Cfg {
    pattern: Pattern,
    variant: Variant,
    /// max_publishers | max_notifiers | max_clients | (writers: always 1, not configurable)
    max_tx: usize,
    /// max_subscribers | max_listeners | max_servers | max_readers
    max_rx: usize,
    max_nodes: usize,
    /// events only
    event_id_max: usize,
}

#[derive(Clone, Debug, Serialize, Deserialize, PartialEq, Eq)]
pub enum Op {
    /// publisher | notifier | client | writer through the handle of the node
    CreateSender(usize),
    /// subscriber | listener | server | reader through the handle of the node
    CreateReceiver(usize),
    /// node i opens the service (node 0: a second handle of the creator's node)
    OpenByNode(usize),
    /// drops the k-th live port of the sending role (creation order)
    DropSender(usize),
    DropReceiver(usize),
    /// node i >= 1: drops the ports the node created, then its handle; node 0: drops the second handle
    DropHandle(usize),
    /// events: the first live notifier notifies with this event id
    Notify(usize),
}

// ---------------------------------------------------------------------------------------------
// the documented error of "one too many", per pattern and role

fn tx_role(p: Pattern) -> &'static str {
    match p {
        Pattern::PublishSubscribe => "Publisher",
        Pattern::Event => "Notifier",
        Pattern::RequestResponse => "Client",
        Pattern::Blackboard => "Writer",
    }
}

fn rx_role(p: Pattern) -> &'static str {
    match p {
        Pattern::PublishSubscribe => "Subscriber",
        Pattern::Event => "Listener",
        Pattern::RequestResponse => "Server",
        Pattern::Blackboard => "Reader",
    }
}

/// `PublisherCreateError::ExceedsMaxSupportedPublishers`, `NotifierCreateError::ExceedsMaxSupportedNotifiers`,
/// `ClientCreateError::ExceedsMaxSupportedClients`, `WriterCreateError::ExceedsMaxSupportedWriters`
fn tx_error(p: Pattern) -> &'static str {
    match p {
        Pattern::PublishSubscribe => "PublisherCreateError::ExceedsMaxSupportedPublishers",
        Pattern::Event => "NotifierCreateError::ExceedsMaxSupportedNotifiers",
        Pattern::RequestResponse => "ClientCreateError::ExceedsMaxSupportedClients",
        Pattern::Blackboard => "WriterCreateError::ExceedsMaxSupportedWriters",
    }
}

/// `SubscriberCreateError::ExceedsMaxSupportedSubscribers`, `ListenerCreateError::ExceedsMaxSupportedListeners`,
/// `ServerCreateError::ExceedsMaxSupportedServers`, `ReaderCreateError::ExceedsMaxSupportedReaders`
fn rx_error(p: Pattern) -> &'static str {
    match p {
        Pattern::PublishSubscribe => "SubscriberCreateError::ExceedsMaxSupportedSubscribers",
        Pattern::Event => "ListenerCreateError::ExceedsMaxSupportedListeners",
        Pattern::RequestResponse => "ServerCreateError::ExceedsMaxSupportedServers",
        Pattern::Blackboard => "ReaderCreateError::ExceedsMaxSupportedReaders",
    }
}

/// `PublishSubscribeOpenError | EventOpenError | RequestResponseOpenError | BlackboardOpenError ::ExceedsMaxNumberOfNodes`
fn node_error(p: Pattern) -> &'static str {
    match p {
        Pattern::PublishSubscribe => "PublishSubscribeOpenError::ExceedsMaxNumberOfNodes",
        Pattern::Event => "EventOpenError::ExceedsMaxNumberOfNodes",
        Pattern::RequestResponse => "RequestResponseOpenError::ExceedsMaxNumberOfNodes",
        Pattern::Blackboard => "BlackboardOpenError::ExceedsMaxNumberOfNodes",
    }
}

const EVENT_ID_ERROR: &str = "NotifierNotifyError::EventIdOutOfBounds";

// ---------------------------------------------------------------------------------------------
// isolation: one domain (root directory + prefix) per execution and per process

static COUNTER: AtomicU64 = AtomicU64::new(0);

struct Domain {
    scan_shm: bool,
    root: String,
    tag: String,
    config: Config,
}

impl Domain {
    fn new(is_ipc: bool) -> Result<Domain, Fail> {
        let n = COUNTER.fetch_add(1, Ordering::Relaxed);
        let pid = std::process::id();
        let root = format!("/verif/.run/h_limits-{pid}-{n}");
        let tag = format!("hlm{pid}x{n}");
        let prefix = format!("{tag}_");
        std::fs::create_dir_all(&root).map_err(|e| Fail::new("setup", "mkdir", format!("{e:?}")))?;
        let mut config = Config::default();
        config.global.set_root_path(&Path::new(root.as_bytes()).map_err(|e| Fail::new("setup", "root_path", format!("{e:?}")))?);
        config.global.prefix = FileName::new(prefix.as_bytes()).map_err(|e| Fail::new("setup", "prefix", format!("{e:?}")))?;
        // not a limit under test: size of the per-port buffers for expired connections (the default
        // of 128 makes every port creation allocate and initialise several 100 kB)
        config.defaults.request_response.client_expired_connection_buffer = 8;
        config.defaults.request_response.server_expired_connection_buffer = 8;
        config.defaults.publish_subscribe.subscriber_expired_connection_buffer = 8;
        // nothing dies in this harness; the scan for dead nodes at every node creation / destruction
        // parses the details of every node of the domain
        config.global.node.cleanup_dead_nodes_on_creation = false;
        config.global.node.cleanup_dead_nodes_on_destruction = false;
        // the local variants never touch /dev/shm: look once per process only
        Ok(Domain { scan_shm: is_ipc || n == 0, root, tag, config })
    }

    fn files(&self) -> Vec<String> {
        fn walk(base: &str, rel: &str, out: &mut Vec<String>) {
            let p = if rel.is_empty() { base.to_string() } else { format!("{base}/{rel}") };
            if let Ok(rd) = std::fs::read_dir(&p) {
                for e in rd.flatten() {
                    let name = e.file_name().to_string_lossy().to_string();
                    let r = if rel.is_empty() { name.clone() } else { format!("{rel}/{name}") };
                    if e.file_type().map(|t| t.is_dir()).unwrap_or(false) {
                        out.push(format!("{r}/"));
                        walk(base, &r, out);
                    } else {
                        out.push(r);
                    }
                }
            }
        }
        let mut v = Vec::new();
        walk(&self.root, "", &mut v);
        v.sort();
        v
    }

    fn shm(&self) -> Vec<String> {
        if !self.scan_shm {
            return Vec::new();
        }
        scan_shm(&self.tag)
    }

    /// every resource of the domain: files below the root and shared-memory objects with the prefix
    fn resources(&self) -> Vec<String> {
        let mut v: Vec<String> = self.files().into_iter().map(|f| format!("<root>/{f}")).collect();
        v.extend(self.shm().into_iter().map(|s| format!("/dev/shm/{s}")));
        v
    }

    /// what is left although it is not documented to persist (documented per domain: the
    /// directories for nodes and services and the domain-wide management segment)
    fn leftovers(&self) -> Vec<String> {
        let nodes = format!("<root>/{}/", self.config.global.node.directory);
        let services = format!("<root>/{}/", self.config.global.service.directory);
        let mgmt_suffix = self.config.global.node.global_mgmt_suffix.to_string();
        self.resources().into_iter().filter(|r| *r != nodes && *r != services && !(r.starts_with("/dev/shm/") && r.ends_with(&mgmt_suffix) && r.contains("node."))).collect()
    }

    /// names without the parts that differ between processes / executions (tag, ids)
    fn canon(&self, paths: &[String]) -> Vec<String> {
        let mut v: Vec<String> = paths
            .iter()
            .map(|p| {
                let p = p.replace(&self.root, "<root>").replace(&self.tag, "<tag>");
                let mut out = String::new();
                let mut run = String::new();
                for c in p.chars().chain(std::iter::once('\0')) {
                    if c.is_ascii_hexdigit() {
                        run.push(c);
                    } else {
                        if run.len() >= 8 {
                            out.push_str("<id>");
                        } else {
                            out.push_str(&run);
                        }
                        run.clear();
                        if c != '\0' {
                            out.push(c);
                        }
                    }
                }
                out
            })
            .collect();
        v.sort();
        v
    }

    fn remove(&self) {
        let _ = std::fs::remove_dir_all(&self.root);
        for s in self.shm() {
            let _ = std::fs::remove_file(format!("/dev/shm/{s}"));
        }
    }
}

fn scan_shm(tag: &str) -> Vec<String> {
    let mut v = Vec::new();
    let tag = tag.as_bytes();
    unsafe {
        let d = libc::opendir(b"/dev/shm\0".as_ptr() as *const libc::c_char);
        if d.is_null() {
            return v;
        }
        loop {
            let e = libc::readdir(d);
            if e.is_null() {
                break;
            }
            let name = std::ffi::CStr::from_ptr((*e).d_name.as_ptr()).to_bytes();
            if name.len() >= tag.len() && name.windows(tag.len()).any(|w| w == tag) {
                v.push(String::from_utf8_lossy(name).to_string());
            }
        }
        libc::closedir(d);
    }
    v.sort();
    v
}

/// Domains of processes that no longer exist (a replayed violation is abandoned by the engine with
/// `mem::forget`, a crashed worker cannot clean up): removed whenever a parent / replay process starts.
fn remove_stale_domains() {
    if std::env::args().any(|a| a == "--job" || a == "--list") {
        return;
    }
    let alive = |pid: &str| !pid.is_empty() && pid.chars().all(|c| c.is_ascii_digit()) && std::path::Path::new(&format!("/proc/{pid}")).exists();
    if let Ok(rd) = std::fs::read_dir("/verif/.run") {
        for e in rd.flatten() {
            let name = e.file_name().to_string_lossy().to_string();
            if let Some(rest) = name.strip_prefix("h_limits-") {
                let pid = rest.split('-').next().unwrap_or("");
                if !pid.is_empty() && pid.chars().all(|c| c.is_ascii_digit()) && !alive(pid) {
                    let _ = std::fs::remove_dir_all(e.path());
                }
            }
        }
    }
    if let Ok(rd) = std::fs::read_dir("/dev/shm") {
        for e in rd.flatten() {
            let name = e.file_name().to_string_lossy().to_string();
            if let Some(rest) = name.strip_prefix("hlm") {
                let pid: String = rest.chars().take_while(|c| c.is_ascii_digit()).collect();
                if rest[pid.len()..].starts_with('x') && !pid.is_empty() && !alive(&pid) {
                    let _ = std::fs::remove_file(e.path());
                }
            }
        }
    }
}

// ---------------------------------------------------------------------------------------------
// the real objects

enum Handle<S: Service> {
    Ps(publish_subscribe::PortFactory<S, u64, ()>),
    Ev(event::PortFactory<S>),
    Rr(request_response::PortFactory<S, u64, (), u64, ()>),
    Bb(blackboard::PortFactory<S, u64>),
}

enum Tx<S: Service> {
    Pub(Publisher<S, u64, ()>),
    Not(Notifier<S>),
    Cli(Client<S, u64, (), u64, ()>),
    Wri(Writer<S, u64>),
}

enum Rx<S: Service> {
    Sub(Subscriber<S, u64, ()>),
    Lis(Listener<S>),
    Srv(Server<S, u64, (), u64, ()>),
    Rea(Reader<S, u64>),
}

/// what a handle reports about the dynamic state of the service
#[derive(Debug, PartialEq, Eq)]
struct Report {
    /// `number_of_<sending role>s()` and the number of entries `list_<sending role>s` visits
    tx: (usize, usize),
    rx: (usize, usize),
    /// states of the nodes `PortFactory::nodes` lists (sorted)
    nodes: Vec<&'static str>,
}

fn count_list(f: impl FnOnce(&mut dyn FnMut())) -> usize {
    let mut n = 0usize;
    f(&mut || n += 1);
    n
}

fn node_states<F: iceoryx2::service::port_factory::PortFactory>(h: &F) -> Result<Vec<&'static str>, String> {
    let mut v: Vec<&'static str> = Vec::new();
    let r = h.nodes(|n| {
        v.push(match n {
            NodeState::Alive(_) => "alive",
            NodeState::Dead(_) => "dead",
            NodeState::Inaccessible(_) => "inaccessible",
            NodeState::Undefined(_) => "undefined",
        });
        CallbackProgression::Continue
    });
    v.sort();
    r.map(|_| v).map_err(|e| format!("{e:?}"))
}

impl<S: Service> Handle<S> {
    /// `with_nodes`: `PortFactory::nodes` parses the details of every node and is by far the most
    /// expensive call of the harness
    fn report(&self, with_nodes: bool) -> Result<Report, String> {
        Ok(match self {
            Handle::Ps(f) => {
                let d = f.dynamic_config();
                Report {
                    tx: (d.number_of_publishers(), count_list(|c| d.list_publishers(|_| { c(); CallbackProgression::Continue }))),
                    rx: (d.number_of_subscribers(), count_list(|c| d.list_subscribers(|_| { c(); CallbackProgression::Continue }))),
                    nodes: if with_nodes { node_states(f)? } else { Vec::new() },
                }
            }
            Handle::Ev(f) => {
                let d = f.dynamic_config();
                Report {
                    tx: (d.number_of_notifiers(), count_list(|c| d.list_notifiers(|_| { c(); CallbackProgression::Continue }))),
                    rx: (d.number_of_listeners(), count_list(|c| d.list_listeners(|_| { c(); CallbackProgression::Continue }))),
                    nodes: if with_nodes { node_states(f)? } else { Vec::new() },
                }
            }
            Handle::Rr(f) => {
                let d = f.dynamic_config();
                Report {
                    tx: (d.number_of_clients(), count_list(|c| d.list_clients(|_| { c(); CallbackProgression::Continue }))),
                    rx: (d.number_of_servers(), count_list(|c| d.list_servers(|_| { c(); CallbackProgression::Continue }))),
                    nodes: if with_nodes { node_states(f)? } else { Vec::new() },
                }
            }
            Handle::Bb(f) => {
                let d = f.dynamic_config();
                Report {
                    tx: (d.number_of_writers(), count_list(|c| d.list_writers(|_| { c(); CallbackProgression::Continue }))),
                    rx: (d.number_of_readers(), count_list(|c| d.list_readers(|_| { c(); CallbackProgression::Continue }))),
                    nodes: if with_nodes { node_states(f)? } else { Vec::new() },
                }
            }
        })
    }

    /// the static limits as the handle reports them: (tx, rx, nodes)
    fn limits(&self) -> (usize, usize, usize) {
        match self {
            Handle::Ps(f) => (f.static_config().max_publishers(), f.static_config().max_subscribers(), f.static_config().max_nodes()),
            Handle::Ev(f) => (f.static_config().max_notifiers(), f.static_config().max_listeners(), f.static_config().max_nodes()),
            Handle::Rr(f) => (f.static_config().max_clients(), f.static_config().max_servers(), f.static_config().max_nodes()),
            Handle::Bb(f) => (1, f.static_config().max_readers(), f.static_config().max_nodes()),
        }
    }

    fn create_tx(&self) -> Result<Tx<S>, String> {
        match self {
            Handle::Ps(f) => f.publisher_builder().create().map(Tx::Pub).map_err(|e| format!("PublisherCreateError::{e:?}")),
            Handle::Ev(f) => f.notifier_builder().create().map(Tx::Not).map_err(|e| format!("NotifierCreateError::{e:?}")),
            Handle::Rr(f) => f.client_builder().backpressure_strategy(BackpressureStrategy::DiscardData).create().map(Tx::Cli).map_err(|e| format!("ClientCreateError::{e:?}")),
            Handle::Bb(f) => f.writer_builder().create().map(Tx::Wri).map_err(|e| format!("WriterCreateError::{e:?}")),
        }
    }

    fn create_rx(&self) -> Result<Rx<S>, String> {
        match self {
            Handle::Ps(f) => f.subscriber_builder().create().map(Rx::Sub).map_err(|e| format!("SubscriberCreateError::{e:?}")),
            Handle::Ev(f) => f.listener_builder().create().map(Rx::Lis).map_err(|e| format!("ListenerCreateError::{e:?}")),
            Handle::Rr(f) => f.server_builder().backpressure_strategy(BackpressureStrategy::DiscardData).create().map(Rx::Srv).map_err(|e| format!("ServerCreateError::{e:?}")),
            Handle::Bb(f) => f.reader_builder().create().map(Rx::Rea).map_err(|e| format!("ReaderCreateError::{e:?}")),
        }
    }
}

fn dbg<E: std::fmt::Debug>(e: E) -> String {
    format!("{e:?}")
}

// ---------------------------------------------------------------------------------------------

pub trait WorldDyn {
    fn enabled(&self) -> Vec<Op>;
    fn apply(&mut self, op: &Op) -> Result<(), Fail>;
    fn finish(&mut self) -> Result<(), Fail>;
    fn key(&self) -> u64;
}

pub struct Sys(Box<dyn WorldDyn>);

struct World<S: Service + 'static> {
    cfg: Cfg,
    domain: Domain,
    name: ServiceName,
    // real objects; the order of the fields is the drop order
    /// (owner node, port) in creation order
    tx: Vec<(usize, Tx<S>)>,
    rx: Vec<(usize, Rx<S>)>,
    /// index = node; [0] is a second handle of the creator's node
    handles: Vec<Option<Handle<S>>>,
    creator: Option<Handle<S>>,
    /// index = node; nodes >= 1 are created lazily and live until the end
    nodes: Vec<Option<Node<S>>>,
    // model: `handles[i].is_some()`, the owners in `tx` / `rx`, and
    /// last value written to the blackboard entry
    bb_value: u64,
    seq: u64,
    /// in the refill phase of `finish`
    refill: bool,
}

impl<S: Service + 'static> World<S> {
    fn new(cfg: &Cfg) -> Result<Self, Fail> {
        let is_ipc = cfg.variant == Variant::Ipc;
        let domain = Domain::new(is_ipc)?;
        let name: ServiceName = format!("c08/{}", domain.tag).as_str().try_into().map_err(|e| Fail::new("setup", "service name", dbg(e)))?;
        let node0 = NodeBuilder::new().config(&domain.config).create::<S>().map_err(|e| Fail::new("setup", "node", dbg(e)))?;
        let b = node0.service_builder(&name);
        let creator = match cfg.pattern {
            Pattern::PublishSubscribe => b.publish_subscribe::<u64>().max_publishers(cfg.max_tx).max_subscribers(cfg.max_rx).max_nodes(cfg.max_nodes).create().map(Handle::Ps).map_err(dbg),
            Pattern::Event => b.event().max_notifiers(cfg.max_tx).max_listeners(cfg.max_rx).max_nodes(cfg.max_nodes).event_id_max_value(cfg.event_id_max).create().map(Handle::Ev).map_err(dbg),
            Pattern::RequestResponse => b.request_response::<u64, u64>().max_clients(cfg.max_tx).max_servers(cfg.max_rx).max_nodes(cfg.max_nodes).create().map(Handle::Rr).map_err(dbg),
            Pattern::Blackboard => b.blackboard_creator::<u64>().add::<u64>(0, 0).max_readers(cfg.max_rx).max_nodes(cfg.max_nodes).create().map(Handle::Bb).map_err(dbg),
        }
        .map_err(|e| Fail::new("setup", "service create", e))?;
        let mut nodes: Vec<Option<Node<S>>> = (0..=cfg.max_nodes).map(|_| None).collect();
        nodes[0] = Some(node0);
        let mut w = World { cfg: cfg.clone(), domain, name, tx: Vec::new(), rx: Vec::new(), handles: (0..=cfg.max_nodes).map(|_| None).collect(), creator: Some(creator), nodes, bb_value: 0, seq: 0, refill: false };
        // the service must report exactly the limits it was created with
        let l = w.creator.as_ref().unwrap().limits();
        ensure!(l == (w.max_tx(), cfg.max_rx, cfg.max_nodes), "setup", "static config", "the service reports the limits {:?}, created with {:?}", l, (w.max_tx(), cfg.max_rx, cfg.max_nodes));
        w.check("new_sys")?;
        Ok(w)
    }

    fn max_tx(&self) -> usize {
        if self.cfg.pattern == Pattern::Blackboard {
            1
        } else {
            self.cfg.max_tx
        }
    }

    /// the handle through which node i creates its ports
    fn handle_of(&self, node: usize) -> Option<&Handle<S>> {
        if node == 0 {
            self.creator.as_ref()
        } else {
            self.handles[node].as_ref()
        }
    }

    /// model: number of nodes that use the service
    fn users(&self) -> usize {
        1 + self.handles.iter().skip(1).filter(|h| h.is_some()).count()
    }

    fn open(&self, node: usize) -> Result<Handle<S>, String> {
        let b = self.nodes[node].as_ref().unwrap().service_builder(&self.name);
        match self.cfg.pattern {
            Pattern::PublishSubscribe => b.publish_subscribe::<u64>().open().map(Handle::Ps).map_err(|e| format!("PublishSubscribeOpenError::{e:?}")),
            Pattern::Event => b.event().open().map(Handle::Ev).map_err(|e| format!("EventOpenError::{e:?}")),
            Pattern::RequestResponse => b.request_response::<u64, u64>().open().map(Handle::Rr).map_err(|e| format!("RequestResponseOpenError::{e:?}")),
            Pattern::Blackboard => b.blackboard_opener::<u64>().open().map(Handle::Bb).map_err(|e| format!("BlackboardOpenError::{e:?}")),
        }
    }

    fn is_ipc(&self) -> bool {
        self.cfg.variant == Variant::Ipc
    }

    fn snapshot(&self) -> Vec<String> {
        if self.is_ipc() {
            self.domain.canon(&self.domain.resources())
        } else {
            Vec::new()
        }
    }

    fn untouched(&self, before: &[String], site: &str) -> Result<(), Fail> {
        let after = self.snapshot();
        ensure!(after == before, "c08-side-effect", format!("resources of the domain after {site}"), "the refused call changed the resources of the domain from {:?} to {:?}", before, after);
        Ok(())
    }

    // ---- operations ---------------------------------------------------------------------------------

    fn op_open(&mut self, node: usize, phase: &str) -> Result<(), Fail> {
        if self.nodes[node].is_none() {
            let n = NodeBuilder::new().config(&self.domain.config).create::<S>().map_err(|e| Fail::new("setup", "node", dbg(e)))?;
            self.nodes[node] = Some(n);
        }
        let fits = node == 0 || self.users() < self.cfg.max_nodes;
        let site = if node == 0 {
            format!("{phase}open by a node that already uses the service")
        } else if fits {
            format!("{phase}open by a further node within max_nodes")
        } else {
            format!("{phase}open by one node more than max_nodes")
        };
        let before = if fits { Vec::new() } else { self.snapshot() };
        let r = self.open(node);
        match (r, fits) {
            (Ok(h), true) => {
                ensure!(self.handles[node].is_none(), "harness", "op_open", "node {} already has a handle", node);
                self.handles[node] = Some(h);
            }
            (Err(e), true) => {
                return Err(Fail::new("c08-node-refused-within-limit", site, format!("{e}; {} of {} nodes use the service", self.users(), self.cfg.max_nodes)));
            }
            (Ok(h), false) => {
                let rep = h.report(true);
                return Err(Fail::new("c08-node-limit-not-enforced", site, format!("the open succeeded although {} of {} nodes already use the service; the new handle reports {:?}", self.users(), self.cfg.max_nodes, rep)));
            }
            (Err(e), false) => {
                ensure!(e == node_error(self.cfg.pattern), "c08-wrong-error", site, "refused with {}, documented: {}", e, node_error(self.cfg.pattern));
                self.untouched(&before, &site)?;
            }
        }
        // refill phase of finish: the node list is compared once, when everything is at its limit
        self.check_reports(&site, if self.refill { 0 } else { 2 })?;
        self.check(&site)
    }

    fn op_create(&mut self, sender: bool, node: usize, phase: &str) -> Result<(), Fail> {
        let p = self.cfg.pattern;
        let (role, live, max, documented) = if sender { (tx_role(p), self.tx.len(), self.max_tx(), tx_error(p)) } else { (rx_role(p), self.rx.len(), self.cfg.max_rx, rx_error(p)) };
        let fits = live < max;
        let site = format!("{phase}{role} create {}", if fits { "within the limit" } else { "one too many" });
        let before = if fits { Vec::new() } else { self.snapshot() };
        let h = self.handle_of(node).ok_or_else(|| Fail::new("harness", "op_create", format!("node {node} has no handle")))?;
        // (Ok(()), port) / Err(error)
        let (r, tx, rx) = if sender {
            match h.create_tx() {
                Ok(t) => (Ok(()), Some(t), None),
                Err(e) => (Err(e), None, None),
            }
        } else {
            match h.create_rx() {
                Ok(t) => (Ok(()), None, Some(t)),
                Err(e) => (Err(e), None, None),
            }
        };
        match (r, fits) {
            (Ok(()), true) => {
                if let Some(t) = tx {
                    self.tx.push((node, t));
                }
                if let Some(t) = rx {
                    self.rx.push((node, t));
                }
            }
            (Err(e), true) => {
                return Err(Fail::new("c08-port-refused-within-limit", site, format!("{e}; {live} of {max} ports of the role are alive")));
            }
            (Ok(()), false) => {
                return Err(Fail::new("c08-port-limit-not-enforced", site, format!("the port was created although {live} of {max} ports of the role are alive")));
            }
            (Err(e), false) => {
                ensure!(e == documented, "c08-wrong-error", site, "refused with {}, documented: {}", e, documented);
                self.untouched(&before, &site)?;
            }
        }
        self.check(&site)
    }

    fn op_drop_port(&mut self, sender: bool, k: usize) -> Result<(), Fail> {
        let role = if sender { tx_role(self.cfg.pattern) } else { rx_role(self.cfg.pattern) };
        if sender {
            ensure!(k < self.tx.len(), "harness", "DropSender", "index {}", k);
            drop(self.tx.remove(k));
        } else {
            ensure!(k < self.rx.len(), "harness", "DropReceiver", "index {}", k);
            drop(self.rx.remove(k));
        }
        self.check(&format!("{role} drop"))
    }

    fn op_drop_handle(&mut self, node: usize) -> Result<(), Fail> {
        ensure!(self.handles[node].is_some(), "harness", "DropHandle", "node {} has no handle", node);
        if node == 0 {
            self.handles[0] = None;
            self.check_reports("drop of the second handle of a node", 2)?;
            return self.check("drop of the second handle of a node");
        }
        // the ports the node created first (whether a node without handle but with ports still
        // counts as a user of the service is not documented)
        while let Some(k) = self.tx.iter().rposition(|(o, _)| *o == node) {
            drop(self.tx.remove(k));
        }
        while let Some(k) = self.rx.iter().rposition(|(o, _)| *o == node) {
            drop(self.rx.remove(k));
        }
        self.handles[node] = None;
        self.check_reports("drop of the ports and the handle of a node", 2)?;
        self.check("drop of the ports and the handle of a node")
    }

    fn op_notify(&mut self, id: usize) -> Result<(), Fail> {
        let Some((_, Tx::Not(n))) = self.tx.first() else { return Err(Fail::new("harness", "Notify", "no notifier")) };
        let fits = id <= self.cfg.event_id_max;
        let site = format!("notify with an event id {}", if fits { "within event_id_max_value" } else { "of event_id_max_value + 1" });
        let before = if fits { Vec::new() } else { self.snapshot() };
        let r = n.notify_with_custom_event_id(EventId::new(id));
        let listeners = self.rx.len();
        match (r, fits) {
            (Ok(c), true) => {
                ensure!(c == listeners, "c08-event-id-bound", site, "id {} of max {}: {} listeners notified, {} are alive", id, self.cfg.event_id_max, c, listeners);
                self.expect_events(&[id], "c08-event-id-bound", &site)?;
            }
            (Err(e), true) => {
                return Err(Fail::new("c08-event-id-bound", site, format!("id {} of max {} refused with {:?}", id, self.cfg.event_id_max, e)));
            }
            (Ok(c), false) => {
                return Err(Fail::new("c08-event-id-bound", site, format!("id {} accepted ({} listeners notified) although event_id_max_value is {}", id, c, self.cfg.event_id_max)));
            }
            (Err(e), false) => {
                let e = format!("NotifierNotifyError::{e:?}");
                ensure!(e == EVENT_ID_ERROR, "c08-wrong-error", site, "refused with {}, documented: {}", e, EVENT_ID_ERROR);
                // no side effect: nothing arrives at any listener
                self.expect_events(&[], "c08-side-effect", &site)?;
                self.untouched(&before, &site)?;
            }
        }
        self.check(&site)
    }

    /// every live listener has exactly these event ids pending
    fn expect_events(&self, want: &[usize], tag: &str, site: &str) -> Result<(), Fail> {
        for (_, l) in &self.rx {
            if let Rx::Lis(l) = l {
                let mut got: Vec<usize> = Vec::new();
                let r = l.try_wait(|a| got.push(a.id.as_value()));
                got.sort();
                ensure!(r.is_ok() && got == want, tag, format!("Listener::try_wait after {site}"), "returned {:?} with the ids {:?}, expected {:?}", r, got, want);
            }
        }
        Ok(())
    }

    // ---- after every step ---------------------------------------------------------------------------

    fn check(&mut self, site: &str) -> Result<(), Fail> {
        // the node list (expensive) is compared after every operation on handles, at the begin and
        // the end of finish and when everything is at its limit; the port counts after every step
        self.check_reports(site, 0)?;
        self.probe(site)
    }

    /// `nodes`: 2 = the nodes of the service are listed through every live handle, 1 = only through
    /// the creator's handle, 0 = not at all (the port counts are always read through every handle)
    fn check_reports(&self, site: &str, nodes: u8) -> Result<(), Fail> {
        let want = Report { tx: (self.tx.len(), self.tx.len()), rx: (self.rx.len(), self.rx.len()), nodes: vec!["alive"; self.users()] };
        let p = self.cfg.pattern;
        for (which, h) in std::iter::once(("the creator's handle", self.creator.as_ref())).chain(self.handles.iter().map(|h| ("an opener's handle", h.as_ref()))) {
            let Some(h) = h else { continue };
            let with_nodes = nodes == 2 || (nodes == 1 && which == "the creator's handle");
            let got = h.report(with_nodes).map_err(|e| Fail::new("c08-side-effect", format!("PortFactory::nodes after {site}"), e))?;
            ensure!(
                got.tx == want.tx,
                "c08-side-effect",
                format!("dynamic_config: number of {}s after {site}", tx_role(p)),
                "{which} reports {} (listed: {}), alive: {}",
                got.tx.0,
                got.tx.1,
                want.tx.0
            );
            ensure!(
                got.rx == want.rx,
                "c08-side-effect",
                format!("dynamic_config: number of {}s after {site}", rx_role(p)),
                "{which} reports {} (listed: {}), alive: {}",
                got.rx.0,
                got.rx.1,
                want.rx.0
            );
            ensure!(!with_nodes || got.nodes == want.nodes, "c08-side-effect", format!("PortFactory::nodes after {site}"), "{which} lists the nodes {:?}, {} nodes use the service", got.nodes, self.users());
        }
        Ok(())
    }

    fn next(&mut self) -> u64 {
        self.seq += 1;
        1000 + self.seq
    }

    /// every live port performs one round of its characteristic operation
    fn probe(&mut self, site: &str) -> Result<(), Fail> {
        let broken = |what: &str, detail: String| Fail::new("c08-port-broken", format!("{what} after {site}"), detail);
        match self.cfg.pattern {
            Pattern::PublishSubscribe => {
                let subs = self.rx.len();
                for i in 0..self.tx.len() {
                    let v = self.next();
                    let Tx::Pub(p) = &self.tx[i].1 else { unreachable!() };
                    let r = p.send_copy(v);
                    ensure!(r == Ok(subs), "c08-port-broken", format!("Publisher::send_copy after {site}"), "returned {:?}, {} subscribers are alive", r, subs);
                    for (_, s) in &self.rx {
                        let Rx::Sub(s) = s else { unreachable!() };
                        let r = s.receive().map(|o| o.map(|s| *s));
                        ensure!(r == Ok(Some(v)), "c08-port-broken", format!("Subscriber::receive after {site}"), "returned {:?}, expected the sample that was just sent", r.map(|o| o.map(|x| x.wrapping_sub(v))));
                    }
                }
                for (_, s) in &self.rx {
                    let Rx::Sub(s) = s else { unreachable!() };
                    let r = s.receive().map(|o| o.map(|s| *s));
                    ensure!(r == Ok(None), "c08-port-broken", format!("Subscriber::receive after {site}"), "returned {:?} although everything was received", r.map(|o| o.is_some()));
                }
            }
            Pattern::Event => {
                let listeners = self.rx.len();
                self.expect_events(&[], "c08-port-broken", site)?;
                for (_, n) in &self.tx {
                    let Tx::Not(n) = n else { unreachable!() };
                    let r = n.notify_with_custom_event_id(EventId::new(0));
                    ensure!(r == Ok(listeners), "c08-port-broken", format!("Notifier::notify after {site}"), "returned {:?}, {} listeners are alive", r, listeners);
                    self.expect_events(&[0], "c08-port-broken", site)?;
                }
            }
            Pattern::RequestResponse => {
                for i in 0..self.tx.len() {
                    let v = self.next();
                    let Tx::Cli(c) = &self.tx[i].1 else { unreachable!() };
                    let pending = c.send_copy(v).map_err(|e| broken("Client::send_copy", dbg(e)))?;
                    for (_, s) in &self.rx {
                        let Rx::Srv(s) = s else { unreachable!() };
                        let active = match s.receive() {
                            Ok(Some(a)) => a,
                            Ok(None) => return Err(broken("Server::receive", "returned None, a request was just sent".into())),
                            Err(e) => return Err(broken("Server::receive", dbg(e))),
                        };
                        ensure!(*active.payload() == v, "c08-port-broken", format!("Server::receive after {site}"), "request payload differs from the one just sent by {}", active.payload().wrapping_sub(v));
                        active.send_copy(v + 1).map_err(|e| broken("ActiveRequest::send_copy", dbg(e)))?;
                        let r = pending.receive().map(|o| o.map(|r| *r));
                        ensure!(r == Ok(Some(v + 1)), "c08-port-broken", format!("PendingResponse::receive after {site}"), "returned {:?}, expected the response that was just sent", r.map(|o| o.map(|x| x.wrapping_sub(v))));
                        drop(active);
                    }
                    let r = pending.receive().map(|o| o.map(|r| *r));
                    ensure!(r == Ok(None), "c08-port-broken", format!("PendingResponse::receive after {site}"), "returned {:?} although every response was received", r.map(|o| o.is_some()));
                    drop(pending);
                }
                for (_, s) in &self.rx {
                    let Rx::Srv(s) = s else { unreachable!() };
                    let r = s.receive().map(|o| o.map(|a| *a.payload()));
                    ensure!(r == Ok(None), "c08-port-broken", format!("Server::receive after {site}"), "returned {:?} although every request was received", r.map(|o| o.is_some()));
                }
            }
            Pattern::Blackboard => {
                for i in 0..self.tx.len() {
                    let v = self.next();
                    let Tx::Wri(w) = &self.tx[i].1 else { unreachable!() };
                    let h = w.entry::<u64>(&0).map_err(|e| broken("Writer::entry", dbg(e)))?;
                    h.update_with_copy(v);
                    drop(h);
                    self.bb_value = v;
                }
                for (_, r) in &self.rx {
                    let Rx::Rea(r) = r else { unreachable!() };
                    let h = r.entry::<u64>(&0).map_err(|e| broken("Reader::entry", dbg(e)))?;
                    let got = *h.get();
                    ensure!(got == self.bb_value, "c08-port-broken", format!("EntryHandle::get after {site}"), "read a value that differs from the last written one by {}", got.wrapping_sub(self.bb_value));
                }
            }
        }
        Ok(())
    }

    fn do_finish(&mut self) -> Result<(), Fail> {
        // 1. free everything except the creator handle
        self.tx.clear();
        self.rx.clear();
        for h in self.handles.iter_mut() {
            *h = None;
        }
        self.check_reports("everything but the creator's handle was dropped", 0).map_err(|f| Fail::new("c08-not-restored", f.site, f.detail))?;
        // 2. every role and the node table can be filled up to the limit again, and not further
        let phase = "refill: ";
        self.refill = true;
        for node in 1..=self.cfg.max_nodes {
            // nodes 1 .. max_nodes - 1 fit, node max_nodes is one too many
            self.op_open(node, phase).map_err(|f| restored(f))?;
        }
        let holders: Vec<usize> = (0..=self.cfg.max_nodes).filter(|n| *n == 0 || self.handles[*n].is_some()).collect();
        for k in 0..=self.max_tx() {
            self.op_create(true, holders[k % holders.len()], phase).map_err(|f| restored(f))?;
        }
        for k in 0..=self.cfg.max_rx {
            self.op_create(false, holders[(k + 1) % holders.len()], phase).map_err(|f| restored(f))?;
        }
        self.check_reports("refill: everything is at its limit", 2)?;
        if self.cfg.pattern == Pattern::Event {
            self.op_notify(self.cfg.event_id_max + 1)?;
            self.op_notify(self.cfg.event_id_max)?;
        }
        // 3. drop everything
        self.tx.clear();
        self.rx.clear();
        for h in self.handles.iter_mut() {
            *h = None;
        }
        self.check_reports("everything but the creator's handle was dropped", 1).map_err(|f| Fail::new("c08-not-restored", f.site, f.detail))?;
        self.creator = None;
        self.nodes.clear();
        let left = self.domain.leftovers();
        ensure!(left.is_empty(), "c08-side-effect", "resources of the domain after everything was dropped", "{:?}", self.domain.canon(&left));
        self.domain.remove();
        Ok(())
    }
}

/// a port / node that is refused within the limit after capacity was freed
fn restored(f: Fail) -> Fail {
    if f.tag == "c08-port-refused-within-limit" || f.tag == "c08-node-refused-within-limit" {
        Fail::new("c08-not-restored", f.site, f.detail)
    } else {
        f
    }
}

impl<S: Service + 'static> Drop for World<S> {
    fn drop(&mut self) {
        self.tx.clear();
        self.rx.clear();
        self.handles.clear();
        self.creator = None;
        self.nodes.clear();
        self.domain.remove();
    }
}

/// panic messages of the repository contain ids and addresses; a replay has to reproduce the text
fn sanitize(s: &str) -> String {
    let mut out = String::new();
    let mut run = String::new();
    for c in s.chars().chain(std::iter::once('\0')) {
        if c.is_ascii_hexdigit() {
            run.push(c);
        } else {
            if run.len() >= 4 && run.chars().any(|c| c.is_ascii_digit()) {
                out.push('#');
            } else {
                out.push_str(&run);
            }
            run.clear();
            if c != '\0' {
                out.push(c);
            }
        }
    }
    out.chars().take(400).collect()
}

fn no_panic(what: &str, f: impl FnOnce() -> Result<(), Fail>) -> Result<(), Fail> {
    match std::panic::catch_unwind(std::panic::AssertUnwindSafe(f)) {
        Ok(r) => r,
        Err(p) => {
            let msg = if let Some(s) = p.downcast_ref::<&str>() {
                s.to_string()
            } else if let Some(s) = p.downcast_ref::<String>() {
                s.clone()
            } else {
                "panic with non-string payload".to_string()
            };
            Err(Fail::new("panic", what.to_string(), sanitize(&msg)))
        }
    }
}

impl<S: Service + 'static> WorldDyn for World<S> {
    fn enabled(&self) -> Vec<Op> {
        let mut v = Vec::new();
        let holders: Vec<usize> = (0..=self.cfg.max_nodes).filter(|n| *n == 0 || self.handles[*n].is_some()).collect();
        for &n in &holders {
            v.push(Op::CreateSender(n));
            v.push(Op::CreateReceiver(n));
        }
        for n in 1..=self.cfg.max_nodes {
            // a node that never existed carries no state: only the lowest of them acts
            if self.handles[n].is_none() && (n == 1 || self.nodes[n - 1].is_some()) {
                v.push(Op::OpenByNode(n));
            }
        }
        // a second handle of a node that already uses the service does not add a node: offered at
        // the boundary, i.e. while the node table is full
        if self.handles[0].is_none() && self.users() == self.cfg.max_nodes {
            v.push(Op::OpenByNode(0));
        }
        for k in 0..self.tx.len() {
            v.push(Op::DropSender(k));
        }
        for k in 0..self.rx.len() {
            v.push(Op::DropReceiver(k));
        }
        for n in 0..=self.cfg.max_nodes {
            if self.handles[n].is_some() {
                v.push(Op::DropHandle(n));
            }
        }
        if self.cfg.pattern == Pattern::Event && !self.tx.is_empty() {
            let m = self.cfg.event_id_max;
            let mut ids = vec![0, m, m + 1];
            ids.dedup();
            for id in ids {
                v.push(Op::Notify(id));
            }
        }
        v
    }

    fn apply(&mut self, op: &Op) -> Result<(), Fail> {
        no_panic("apply", || match op {
            Op::CreateSender(n) => self.op_create(true, *n, ""),
            Op::CreateReceiver(n) => self.op_create(false, *n, ""),
            Op::OpenByNode(n) => self.op_open(*n, ""),
            Op::DropSender(k) => self.op_drop_port(true, *k),
            Op::DropReceiver(k) => self.op_drop_port(false, *k),
            Op::DropHandle(n) => self.op_drop_handle(*n),
            Op::Notify(id) => self.op_notify(*id),
        })
    }

    fn finish(&mut self) -> Result<(), Fail> {
        no_panic("finish", || self.do_finish())
    }

    fn key(&self) -> u64 {
        let holders: Vec<bool> = self.handles.iter().map(|h| h.is_some()).collect();
        let existed: Vec<bool> = self.nodes.iter().map(|n| n.is_some()).collect();
        let tx: Vec<usize> = self.tx.iter().map(|(o, _)| *o).collect();
        let rx: Vec<usize> = self.rx.iter().map(|(o, _)| *o).collect();
        seqx::hash_of(&(holders, existed, tx, rx))
    }
}

// ---------------------------------------------------------------------------------------------

struct H;

impl Harness for H {
    type Cfg = Cfg;
    type Op = Op;
    type Sys = Sys;

    fn name(&self) -> &'static str {
        "h_limits"
    }
    fn property(&self) -> &'static str {
        "C08"
    }
    fn rule(&self) -> String {
        "one configuration = messaging pattern (publish-subscribe, event, request-response, blackboard) x service variant (local; thorough: + ipc) x max ports of the sending role {1,2} (blackboard: the single writer) x \
         max ports of the receiving role {1,2} x max_nodes {1,2} (events: x event_id_max_value {0,1,2}; quick tier and ipc: 1 with every combination, 0 and 2 with the smallest and the largest combination); the service is created by node 0 with exactly these limits in an isolated domain; every history (up to the tree depth) of \
         {create a port of either role through the handle of a node, a further node opens the service (one node more than max_nodes allows included), the creator's node opens a second handle while the node table is full, drop the k-th live port of a role, \
         a node drops its handle and its ports, events: notify with id 0 | max | max+1}; the model (which nodes hold a handle, live ports per role with owner) decides Ok / the documented error of every call; after every step \
         (also refused ones) the port counts and listed ports of the dynamic config and the nodes listed by PortFactory::nodes are compared with the model through every live handle, every live port performs one round of its \
         operation, a refused call must leave the resources of the domain unchanged (ipc); finish frees everything but the creator's handle and fills nodes and both roles up to the limit again (must succeed) plus one (must be \
         refused); a distinct state = (handles per node, nodes that ever existed, owner nodes of the live ports per role in creation order)"
            .into()
    }
    fn configs(&self, tier: Tier) -> Vec<(Cfg, Plan)> {
        let q = tier == Tier::Quick;
        let mut v = Vec::new();
        let variants: &[Variant] = if q { &[Variant::Local] } else { &[Variant::Local, Variant::Ipc] };
        for &variant in variants {
            for pattern in [Pattern::PublishSubscribe, Pattern::Event, Pattern::RequestResponse, Pattern::Blackboard] {
                for max_nodes in [1usize, 2] {
                    for max_tx in [1usize, 2] {
                        if pattern == Pattern::Blackboard && max_tx == 2 {
                            continue; // a blackboard has exactly one writer
                        }
                        for max_rx in [1usize, 2] {
                            // quick and ipc: all limit combinations with event_id_max_value 1, the bounds 0 and 2
                            // with the smallest and the largest combination; thorough local: the full product
                            let corner = max_tx == max_rx && max_rx == max_nodes;
                            let ids: &[usize] = if pattern != Pattern::Event {
                                &[0]
                            } else if (!q && variant == Variant::Local) || corner {
                                &[0, 1, 2]
                            } else {
                                &[1]
                            };
                            for &event_id_max in ids {
                                let cfg = Cfg { pattern, variant, max_tx, max_rx, max_nodes, event_id_max };
                                let plan = plan_for(&cfg, q);
                                v.push((cfg, plan));
                            }
                        }
                    }
                }
            }
        }
        v
    }
    fn new_sys(&self, cfg: &Cfg) -> Result<Sys, Fail> {
        set_log_level(LogLevel::Fatal);
        let mut sys: Option<Sys> = None;
        no_panic("new_sys", || {
            sys = Some(Sys(match cfg.variant {
                Variant::Local => Box::new(World::<local::Service>::new(cfg)?),
                Variant::Ipc => Box::new(World::<ipc::Service>::new(cfg)?),
            }));
            Ok(())
        })?;
        Ok(sys.unwrap())
    }
    fn enabled(&self, s: &Sys) -> Vec<Op> {
        s.0.enabled()
    }
    fn apply(&self, s: &mut Sys, op: &Op) -> Result<(), Fail> {
        s.0.apply(op)
    }
    fn finish(&self, mut s: Sys) -> Result<(), Fail> {
        s.0.finish()
    }
    fn model_key(&self, s: &Sys) -> u64 {
        s.0.key()
    }
}

fn plan_for(cfg: &Cfg, quick: bool) -> Plan {
    let ipc = cfg.variant == Variant::Ipc;
    let depth = match (quick, ipc) {
        (true, _) => 4,
        (false, false) => 6,
        (false, true) => 4,
    };
    Plan { tree_depth: depth, finish_prefixes: false, frontier: Some(if ipc { (250, 6) } else { if quick { (400, 8) } else { (1000, 10) } }), split: if quick { if cfg.max_nodes == 2 { 3 } else { 1 } } else if ipc { 6 } else { 8 } }
}

fn main() {
    set_log_level(LogLevel::Fatal);
    // port creation allocates several 100 kB that are freed again in every execution: keep them in
    // the heap instead of mmap / trim cycles
    unsafe {
        libc::mallopt(libc::M_MMAP_THRESHOLD, 256 << 20);
        libc::mallopt(libc::M_TRIM_THRESHOLD, 1 << 30);
        libc::mallopt(libc::M_TOP_PAD, 64 << 20);
    }
    remove_stale_domains();
    seqx::main(H);
}
