//! C13, sequential leg: every sequential history of attach / detach / forced removal of the
//! sender and the receiver role of ONE zero-copy connection name, with matching and mismatching
//! parameters, on `iceoryx2_cal::zero_copy_connection::{process_local, posix_shared_memory,
//! file}::Connection` (all three are `common::details::Connection` over a different dynamic
//! storage).
//!
//! The harness holds at most one live sender and one live receiver (the "attached" ones).
//!
//! Reference model: (sender attached?, receiver attached?, parameters of the existing resource).
//! The resource exists exactly while at least one role is attached; it carries the parameters of
//! the attach that created it.
//!
//! Expected result of `create_sender` / `create_receiver` with parameters p:
//!   * role held                                  -> refused (AnotherInstanceIsAlreadyConnected, or
//!                                                   an Incompatible… variant of a parameter that
//!                                                   really differs) – never Ok
//!   * role free, resource exists with q != p     -> refused with the Incompatible… variant of a
//!                                                   parameter in which p and q differ (exactly THE
//!                                                   variant when they differ in one parameter)
//!   * role free, no resource or q == p           -> Ok
//! After every step (also after a refused attach) a probe compares the real connection with the
//! model: does_exist, is_connected of each held port, the parameters each held port reports, a
//! full send/receive/release/reclaim round trip when both are attached, an idle use otherwise.
//! `finish` detaches what is left (probe after each detach), demands that nothing exists any more
//! and re-uses the name with OTHER parameters (sender + receiver + round trip), after which again
//! nothing may exist.
//!
//! "The process of the port died" = `Abandonable::abandon()` (the test facility of the repository:
//! mem::forget of the port, except that the mapping / file descriptor of this process is given
//! back, so that millions of executions do not run out of descriptors; the shared state is left
//! exactly as after a mem::forget), followed by `remove_sender` / `remove_receiver`.
//!
//! `IsBeingCleanedUp` cannot occur in a sequential history (the teardown is over when the detach
//! returns); that part of C13 is decided by the concurrent harness /verif/mc/h_conn.
//!
//! Every object lives under a name `hconnseq_<type hash>_<pid>_<counter>.rx` (/dev/shm, and
//! /tmp/hconnseq/ for the file implementation); whatever an execution leaves behind – also on a
//! failing path – is removed (`Driver::cleanup`, called from `apply` on failure, `finish`, `Drop`).

extern crate iceoryx2_bb_loggers;

use iceoryx2_bb_container::semantic_string::SemanticString;
use iceoryx2_bb_elementary_traits::testing::abandonable::Abandonable;
use iceoryx2_bb_system_types::file_name::FileName;
use iceoryx2_bb_system_types::path::Path;
use iceoryx2_cal::named_concept::{NamedConceptBuilder, NamedConceptConfiguration};
use iceoryx2_cal::shm_allocator::PointerOffset;
use iceoryx2_cal::zero_copy_connection::*;
use seqx::{ensure, Fail, Harness, Plan, Tier};
use serde::{Deserialize, Serialize};

static COUNTER: std::sync::atomic::AtomicU64 = std::sync::atomic::AtomicU64::new(0);

const PREFIX: &[u8] = b"hconnseq_";
const SAMPLE_SIZE: usize = 8;

// ------------------------------------------------------------------------------------------
// parameters

/// P0 and one variant per compatibility parameter that `create_or_open_shm()` checks
#[derive(Clone, Copy, Debug, PartialEq, Eq, Hash, Serialize, Deserialize)]
enum Pv {
    P0,
    Buffer,
    Borrow,
    Overflow,
    Samples,
    Segments,
    Channels,
}

const ALL_PV: [Pv; 7] = [Pv::P0, Pv::Buffer, Pv::Borrow, Pv::Overflow, Pv::Samples, Pv::Segments, Pv::Channels];

#[derive(Clone, Copy, Debug, PartialEq, Eq)]
struct Params {
    buffer: usize,
    borrow: usize,
    overflow: bool,
    samples: usize,
    segments: u8,
    channels: usize,
}

const P0: Params = Params { buffer: 2, borrow: 1, overflow: true, samples: 8, segments: 1, channels: 1 };

impl Pv {
    fn params(self) -> Params {
        let mut p = P0;
        match self {
            Pv::P0 => {}
            Pv::Buffer => p.buffer = 3,
            Pv::Borrow => p.borrow = 2,
            Pv::Overflow => p.overflow = false,
            Pv::Samples => p.samples = 4,
            Pv::Segments => p.segments = 2,
            Pv::Channels => p.channels = 2,
        }
        p
    }
    fn next(self) -> Pv {
        let i = ALL_PV.iter().position(|x| *x == self).unwrap();
        ALL_PV[(i + 1) % ALL_PV.len()]
    }
}

/// the `Incompatible…` variants that are a correct refusal of `want` on a resource with `have`
fn mismatch_errors(have: Params, want: Params) -> Vec<ZeroCopyCreationError> {
    let mut v = Vec::new();
    if have.buffer != want.buffer {
        v.push(ZeroCopyCreationError::IncompatibleBufferSize);
    }
    if have.borrow != want.borrow {
        v.push(ZeroCopyCreationError::IncompatibleMaxBorrowedSamplesPerChannelSetting);
    }
    if have.overflow != want.overflow {
        v.push(ZeroCopyCreationError::IncompatibleOverflowSetting);
    }
    if have.samples != want.samples {
        v.push(ZeroCopyCreationError::IncompatibleNumberOfSamples);
    }
    if have.segments != want.segments {
        v.push(ZeroCopyCreationError::IncompatibleNumberOfSegments);
    }
    if have.channels != want.channels {
        v.push(ZeroCopyCreationError::IncompatibleNumberOfChannels);
    }
    v
}

// ------------------------------------------------------------------------------------------
// the real connection behind an object-safe facade (one instantiation per implementation)

#[derive(Clone, Copy, Debug, PartialEq, Eq, Hash, Serialize, Deserialize)]
enum Role {
    Sender,
    Receiver,
}

impl Role {
    fn call(self) -> &'static str {
        match self {
            Role::Sender => "create_sender",
            Role::Receiver => "create_receiver",
        }
    }
}

/// what a held port reports about the resource it sits on
#[derive(Clone, Copy, Debug, PartialEq, Eq)]
struct Details {
    buffer: usize,
    borrow: usize,
    overflow: bool,
    segments: u8,
    channels: usize,
}

impl Details {
    fn of(p: Params) -> Details {
        Details { buffer: p.buffer, borrow: p.borrow, overflow: p.overflow, segments: p.segments, channels: p.channels }
    }
    fn read<P: ZeroCopyPortDetails>(p: &P) -> Details {
        Details {
            buffer: p.buffer_size(),
            borrow: p.max_borrowed_chunks(),
            overflow: p.has_enabled_safe_overflow(),
            segments: p.max_supported_shared_memory_segments(),
            channels: p.number_of_channels(),
        }
    }
}

trait Driver {
    /// `keep`: store the port when the attach is granted (otherwise it is dropped at once)
    fn attach(&mut self, role: Role, p: Params, keep: bool) -> Result<(), ZeroCopyCreationError>;
    fn holds(&self, role: Role) -> bool;
    fn detach(&mut self, role: Role);
    /// the held port "dies" (nothing of its destructor runs), then the forced removal on its behalf
    fn kill_and_force_remove(&mut self, role: Role) -> Result<(), ZeroCopyPortRemoveError>;
    fn does_exist(&self) -> Result<bool, String>;
    fn is_connected(&self, role: Role) -> Option<bool>;
    fn details(&self, role: Role) -> Option<Details>;
    /// send one offset, receive it, release it, reclaim it
    fn exchange(&self, offset: usize) -> Result<(), String>;
    /// a held port alone: nothing to reclaim / receive, but the call must work
    fn idle_use(&self, role: Role) -> Result<(), String>;
    /// best effort: drop what is held and remove whatever is left under the name
    fn cleanup(&mut self) -> bool;
}

struct Conn<C: ZeroCopyConnection> {
    name: FileName,
    cfg: C::Configuration,
    sender: Option<C::Sender>,
    receiver: Option<C::Receiver>,
}

impl<C: ZeroCopyConnection> Conn<C> {
    fn builder(&self, p: Params) -> C::Builder {
        C::Builder::new(&self.name)
            .config(&self.cfg)
            .buffer_size(p.buffer)
            .receiver_max_borrowed_chunks_per_channel(p.borrow)
            .enable_safe_overflow(p.overflow)
            .number_of_chunks_per_segment(p.samples)
            .max_supported_shared_memory_segments(p.segments)
            .number_of_channels(p.channels)
    }
}

impl<C: ZeroCopyConnection> Driver for Conn<C> {
    fn attach(&mut self, role: Role, p: Params, keep: bool) -> Result<(), ZeroCopyCreationError> {
        match role {
            Role::Sender => {
                let s = self.builder(p).create_sender()?;
                if keep && self.sender.is_none() {
                    self.sender = Some(s);
                }
            }
            Role::Receiver => {
                let r = self.builder(p).create_receiver()?;
                if keep && self.receiver.is_none() {
                    self.receiver = Some(r);
                }
            }
        }
        Ok(())
    }
    fn holds(&self, role: Role) -> bool {
        match role {
            Role::Sender => self.sender.is_some(),
            Role::Receiver => self.receiver.is_some(),
        }
    }
    fn detach(&mut self, role: Role) {
        match role {
            Role::Sender => self.sender = None,
            Role::Receiver => self.receiver = None,
        }
    }
    fn kill_and_force_remove(&mut self, role: Role) -> Result<(), ZeroCopyPortRemoveError> {
        // `abandon()` = mem::forget without leaking the mapping / file descriptor of this process:
        // the shared state is left exactly as a died process leaves it
        match role {
            Role::Sender => {
                if let Some(s) = self.sender.take() {
                    s.abandon();
                }
                unsafe { C::remove_sender(&self.name, &self.cfg) }
            }
            Role::Receiver => {
                if let Some(r) = self.receiver.take() {
                    r.abandon();
                }
                unsafe { C::remove_receiver(&self.name, &self.cfg) }
            }
        }
    }
    fn does_exist(&self) -> Result<bool, String> {
        C::does_exist_cfg(&self.name, &self.cfg).map_err(|e| format!("{e:?}"))
    }
    fn is_connected(&self, role: Role) -> Option<bool> {
        match role {
            Role::Sender => self.sender.as_ref().map(|s| s.is_connected()),
            Role::Receiver => self.receiver.as_ref().map(|r| r.is_connected()),
        }
    }
    fn details(&self, role: Role) -> Option<Details> {
        match role {
            Role::Sender => self.sender.as_ref().map(Details::read),
            Role::Receiver => self.receiver.as_ref().map(Details::read),
        }
    }
    fn exchange(&self, offset: usize) -> Result<(), String> {
        let (s, r) = match (&self.sender, &self.receiver) {
            (Some(s), Some(r)) => (s, r),
            _ => return Err("harness: exchange without both ports".into()),
        };
        let ch = ChannelId::new(0);
        match s.try_send(PointerOffset::new(offset), SAMPLE_SIZE, ch) {
            Ok(None) => {}
            x => return Err(format!("try_send({offset}) returned {x:?}, expected Ok(None)")),
        }
        let got = match r.receive(ch) {
            Ok(Some(o)) if o.offset() == offset => o,
            x => return Err(format!("receive returned {x:?} after offset {offset} was sent")),
        };
        if let Err(e) = r.release(got, ch) {
            return Err(format!("release({offset}) returned {e:?}"));
        }
        match s.reclaim(ch) {
            Ok(Some(o)) if o.offset() == offset => Ok(()),
            x => Err(format!("reclaim returned {x:?} after offset {offset} was released")),
        }
    }
    fn idle_use(&self, role: Role) -> Result<(), String> {
        let ch = ChannelId::new(0);
        match role {
            Role::Sender => match self.sender.as_ref().map(|s| s.reclaim(ch)) {
                Some(Ok(None)) | None => Ok(()),
                Some(x) => Err(format!("reclaim on the lone sender returned {x:?}, expected Ok(None)")),
            },
            Role::Receiver => match self.receiver.as_ref().map(|r| r.receive(ch)) {
                Some(Ok(None)) | None => Ok(()),
                Some(x) => Err(format!("receive on the lone receiver returned {x:?}, expected Ok(None)")),
            },
        }
    }
    fn cleanup(&mut self) -> bool {
        self.sender = None;
        self.receiver = None;
        match C::does_exist_cfg(&self.name, &self.cfg) {
            Ok(true) => {
                let _ = unsafe { C::remove_cfg(&self.name, &self.cfg) };
                true
            }
            _ => false,
        }
    }
}

// ------------------------------------------------------------------------------------------

#[derive(Clone, Copy, Debug, PartialEq, Eq, Serialize, Deserialize)]
enum Imp {
    ProcessLocal,
    PosixSharedMemory,
    File,
}

#[derive(Clone, Debug, Serialize, Deserialize)]
struct Cfg {
    imp: Imp,
}

#[derive(Clone, Debug, Serialize, Deserialize)]
enum Op {
    AttachSender(Pv),
    AttachReceiver(Pv),
    DetachSender,
    DetachReceiver,
    ForceRemoveSender,
    ForceRemoveReceiver,
    Exchange,
}

#[derive(Clone, Debug, Hash, PartialEq, Eq)]
struct Model {
    sender: bool,
    receiver: bool,
    /// parameters the existing resource was created with (None = no resource)
    resource: Option<Pv>,
    /// a forced removal happened on the existing resource (its channels were closed)
    forced: bool,
    /// completed round trips on the existing resource, modulo 4 (position inside the queues)
    round_trips: u8,
    /// how often the resource was destroyed so far (capped at 2)
    generation: u8,
}

impl Model {
    fn held(&self, role: Role) -> bool {
        match role {
            Role::Sender => self.sender,
            Role::Receiver => self.receiver,
        }
    }
    fn set(&mut self, role: Role, v: bool) {
        match role {
            Role::Sender => self.sender = v,
            Role::Receiver => self.receiver = v,
        }
    }
    fn after_detach(&mut self) {
        if !self.sender && !self.receiver {
            self.resource = None;
            self.forced = false;
            self.round_trips = 0;
            self.generation = (self.generation + 1).min(2);
        }
    }
}

struct Sys {
    drv: Box<dyn Driver>,
    m: Model,
    /// frontier mode of the expensive implementations: states are told apart without the parameter
    /// variant and the queue position, so that few states reach deep histories
    coarse_key: bool,
}

impl Drop for Sys {
    fn drop(&mut self) {
        self.drv.cleanup();
    }
}

fn unique_name() -> FileName {
    let n = COUNTER.fetch_add(1, std::sync::atomic::Ordering::Relaxed);
    FileName::new(format!("{}_{}", std::process::id(), n).as_bytes()).unwrap()
}

fn new_conn<C: ZeroCopyConnection + 'static>(path_hint: Option<&[u8]>) -> Box<dyn Driver> {
    let mut cfg = C::Configuration::default().prefix(&FileName::new(PREFIX).unwrap());
    if let Some(p) = path_hint {
        cfg = cfg.path_hint(&Path::new(p).unwrap());
    }
    Box::new(Conn::<C> { name: unique_name(), cfg, sender: None, receiver: None })
}

struct H;

impl H {
    fn attach(&self, s: &mut Sys, role: Role, pv: Pv) -> Result<bool, Fail> {
        let p = pv.params();
        let held = s.m.held(role);
        let other = if role == Role::Sender { Role::Receiver } else { Role::Sender };
        let peer = if s.m.held(other) { "peer attached" } else { "peer absent" };
        let relation = match s.m.resource {
            None => "no resource",
            Some(q) if q == pv => "matching parameters",
            Some(_) => "mismatching parameters",
        };
        let site = format!("{} with {}, role {}, {}", role.call(), relation, if held { "already attached" } else { "free" }, peer);
        let expect_ok = !held && s.m.resource.map_or(true, |q| q == pv);
        let res = s.drv.attach(role, p, expect_ok);
        if held {
            let q = s.m.resource.expect("model: a held role without a resource").params();
            match res {
                Ok(()) => Err(Fail::new("c13-second-attach-accepted", site, format!("a second {role:?} was attached ({pv:?}) while one is attached"))),
                Err(ZeroCopyCreationError::AnotherInstanceIsAlreadyConnected) => Ok(true),
                Err(e) if mismatch_errors(q, p).contains(&e) => Ok(true),
                Err(e) => Err(Fail::new("c13-wrong-error", site, format!("second attach of {role:?} ({pv:?}) refused with {e:?}"))),
            }
        } else if !expect_ok {
            let q = s.m.resource.unwrap().params();
            let allowed = mismatch_errors(q, p);
            match res {
                Ok(()) => Err(Fail::new("c13-mismatch-not-refused", site, format!("{role:?} attached with {p:?} to a connection created with {q:?}"))),
                Err(e) if allowed.contains(&e) => Ok(true),
                Err(e) => Err(Fail::new("c13-wrong-error", site, format!("{role:?} with {p:?} on a connection created with {q:?}: refused with {e:?}, expected one of {allowed:?}"))),
            }
        } else {
            match res {
                Ok(()) => {
                    s.m.set(role, true);
                    if s.m.resource.is_none() {
                        s.m.resource = Some(pv);
                    }
                    Ok(false)
                }
                Err(e) => Err(Fail::new("c13-attach-refused", site, format!("{role:?} with {pv:?} refused with {e:?} although the role is free and the parameters fit (model {:?})", s.m))),
            }
        }
    }

    /// compares the real connection with the model; `refused` = the step was a refused attach,
    /// which must not have changed anything
    fn probe(&self, s: &mut Sys, after: &str, refused: bool) -> Result<(), Fail> {
        let site = format!("probe after {after}");
        let disturbed = "c13-attached-side-disturbed";
        let any = s.m.sender || s.m.receiver;
        let ex = s.drv.does_exist().map_err(|e| Fail::new("c13-does-exist-failed", site.clone(), e))?;
        if any {
            ensure!(ex, if refused { disturbed } else { "c13-premature-destruction" }, site, "does_exist is false although attached: {:?}", s.m);
        } else {
            ensure!(!ex, "c13-leftover", site, "does_exist is true although nobody is attached: {:?}", s.m);
        }
        let both = s.m.sender && s.m.receiver;
        for role in [Role::Sender, Role::Receiver] {
            ensure!(s.drv.holds(role) == s.m.held(role), "harness", site, "harness holds {:?}: {} but model {:?}", role, s.drv.holds(role), s.m);
            if !s.m.held(role) {
                continue;
            }
            let c = s.drv.is_connected(role).unwrap();
            ensure!(c == both, if refused { disturbed } else { "c13-is-connected" }, site, "{:?}::is_connected() is {} but the model is {:?}", role, c, s.m);
            let want = Details::of(s.m.resource.unwrap().params());
            let got = s.drv.details(role).unwrap();
            ensure!(got == want, if refused { disturbed } else { "c13-resource-parameters" }, site, "{:?} reports {:?} but the connection was created with {:?}", role, got, want);
        }
        if both {
            let off = SAMPLE_SIZE * s.m.round_trips as usize;
            if let Err(e) = s.drv.exchange(off) {
                return Err(Fail::new(if refused { disturbed } else { "c13-exchange" }, site, format!("{e} (model {:?})", s.m)));
            }
            s.m.round_trips = (s.m.round_trips + 1) % 4;
        } else {
            for role in [Role::Sender, Role::Receiver] {
                if let Err(e) = s.drv.idle_use(role) {
                    return Err(Fail::new(if refused { disturbed } else { "c13-exchange" }, site, format!("{e} (model {:?})", s.m)));
                }
            }
        }
        Ok(())
    }

    fn apply_inner(&self, s: &mut Sys, op: &Op) -> Result<(), Fail> {
        let (after, refused): (&str, bool) = match op {
            Op::AttachSender(pv) => {
                if self.attach(s, Role::Sender, *pv)? {
                    ("a refused create_sender", true)
                } else {
                    ("a granted create_sender", false)
                }
            }
            Op::AttachReceiver(pv) => {
                if self.attach(s, Role::Receiver, *pv)? {
                    ("a refused create_receiver", true)
                } else {
                    ("a granted create_receiver", false)
                }
            }
            Op::DetachSender | Op::DetachReceiver => {
                let role = if matches!(op, Op::DetachSender) { Role::Sender } else { Role::Receiver };
                s.drv.detach(role);
                s.m.set(role, false);
                s.m.after_detach();
                (if role == Role::Sender { "drop of the sender" } else { "drop of the receiver" }, false)
            }
            Op::ForceRemoveSender | Op::ForceRemoveReceiver => {
                let role = if matches!(op, Op::ForceRemoveSender) { Role::Sender } else { Role::Receiver };
                let call = if role == Role::Sender { "remove_sender" } else { "remove_receiver" };
                if s.m.held(role) {
                    let r = s.drv.kill_and_force_remove(role);
                    ensure!(r.is_ok(), "c13-forced-removal-failed", format!("{call} for an attached, died {role:?}"), "{:?} (model {:?})", r, s.m);
                    s.m.set(role, false);
                    s.m.forced = true;
                    s.m.after_detach();
                } else {
                    // on behalf of a peer that never attached (or was removed already, e.g. by another
                    // cleaner): the attached side and the resource stay as they are
                    let r = s.drv.kill_and_force_remove(role);
                    if s.m.resource.is_some() {
                        ensure!(r.is_ok(), "c13-forced-removal-failed", format!("{call} for a {role:?} that is not attached"), "{:?} (model {:?})", r, s.m);
                        s.m.forced = true;
                    } else {
                        ensure!(
                            matches!(r, Err(ZeroCopyPortRemoveError::DoesNotExist)),
                            "c13-forced-removal-failed",
                            format!("{call} without a connection"),
                            "{:?} instead of DoesNotExist (model {:?})",
                            r,
                            s.m
                        );
                    }
                }
                (if role == Role::Sender { "remove_sender" } else { "remove_receiver" }, false)
            }
            Op::Exchange => {
                let off = SAMPLE_SIZE * s.m.round_trips as usize;
                if let Err(e) = s.drv.exchange(off) {
                    return Err(Fail::new("c13-exchange", "Exchange with both attached", format!("{e} (model {:?})", s.m)));
                }
                s.m.round_trips = (s.m.round_trips + 1) % 4;
                ("an exchange", false)
            }
        };
        self.probe(s, after, refused)
    }

    fn finish_inner(&self, s: &mut Sys) -> Result<(), Fail> {
        let last = s.m.resource;
        for role in [Role::Sender, Role::Receiver] {
            if s.m.held(role) {
                s.drv.detach(role);
                s.m.set(role, false);
                s.m.after_detach();
                self.probe(s, if role == Role::Sender { "drop of the sender (finish)" } else { "drop of the receiver (finish)" }, false)?;
            }
        }
        let site = "finish: everything detached";
        let ex = s.drv.does_exist().map_err(|e| Fail::new("c13-does-exist-failed", site, e))?;
        ensure!(!ex, "c13-leftover", site, "does_exist is true after the last detach");
        // the name is usable afresh, with other parameters than the last resource had
        let other = last.unwrap_or(Pv::P0).next();
        let site = "finish: reuse of the name with other parameters";
        for role in [Role::Sender, Role::Receiver] {
            if let Err(e) = s.drv.attach(role, other.params(), true) {
                return Err(Fail::new("c13-not-reusable", site, format!("{} with {:?} returned {:?} (last resource {:?})", role.call(), other, e, last)));
            }
            s.m.set(role, true);
            s.m.resource = Some(other);
        }
        for role in [Role::Sender, Role::Receiver] {
            let c = s.drv.is_connected(role).unwrap();
            ensure!(c, "c13-not-reusable", site, "{:?}::is_connected() is false on the fresh connection", role);
            let (got, want) = (s.drv.details(role).unwrap(), Details::of(other.params()));
            ensure!(got == want, "c13-not-reusable", site, "{:?} reports {:?} but the fresh connection was created with {:?}", role, got, want);
        }
        if let Err(e) = s.drv.exchange(0) {
            return Err(Fail::new("c13-not-reusable", site, e));
        }
        s.drv.detach(Role::Receiver);
        s.drv.detach(Role::Sender);
        s.m.sender = false;
        s.m.receiver = false;
        s.m.after_detach();
        let ex = s.drv.does_exist().map_err(|e| Fail::new("c13-does-exist-failed", site, e))?;
        ensure!(!ex, "c13-leftover", "finish: after the reuse", "does_exist is true after the last detach");
        Ok(())
    }
}

impl Harness for H {
    type Cfg = Cfg;
    type Op = Op;
    type Sys = Sys;
    fn name(&self) -> &'static str {
        "h_connseq"
    }
    fn property(&self) -> &'static str {
        "C13"
    }
    fn rule(&self) -> String {
        "one configuration = one zero_copy_connection implementation (process_local, posix_shared_memory, file); every sequence up to the depth of {create_sender(p), create_receiver(p) for p in P0 and one mismatching variant per checked parameter (buffer size, max borrowed chunks, safe overflow, chunks per segment, segments, channels) – with the role free or already attached –, drop sender/receiver, died sender/receiver + remove_sender/remove_receiver, remove_sender/remove_receiver on behalf of a role that is not attached (with and without an existing connection), one send/receive/release/reclaim round trip} on one fresh connection name, with a probe (does_exist, is_connected, reported parameters, round trip) after every step and a reuse of the name with other parameters at the end; a state is distinct by (sender attached, receiver attached, parameters of the existing resource, forced removal happened on it, round trips on it mod 4, destructions so far capped at 2); for posix_shared_memory and file (1000 times more expensive per execution) without the parameters and the round trips, so that the frontier mode reaches every combination of the rest and tries every operation there".into()
    }
    fn configs(&self, tier: Tier) -> Vec<(Cfg, Plan)> {
        let q = tier == Tier::Quick;
        // cost per execution (measured): process_local ~50 us, posix_shared_memory 3 ms alone and 14 ms with 14
        // workers in parallel (munmap of the mlocked mapping: ~0.6 ms per call, 6 per execution), file ~10-20 ms;
        // first-level branching is 14 = split, the frontier runs in worker 0 of its configuration
        vec![
            // the expensive one first (better packing of the workers)
            (Cfg { imp: Imp::PosixSharedMemory }, Plan { tree_depth: if q { 3 } else { 4 }, finish_prefixes: true, frontier: Some((200, 10)), split: 14 }),
            (Cfg { imp: Imp::ProcessLocal }, Plan { tree_depth: if q { 5 } else { 6 }, finish_prefixes: true, frontier: Some((3000, 12)), split: 14 }),
            (Cfg { imp: Imp::File }, Plan { tree_depth: if q { 3 } else { 4 }, finish_prefixes: true, frontier: Some((200, 10)), split: 14 }),
        ]
    }
    fn new_sys(&self, cfg: &Cfg) -> Result<Sys, Fail> {
        iceoryx2_log::set_log_level(iceoryx2_log::LogLevel::Fatal);
        let drv = match cfg.imp {
            Imp::ProcessLocal => new_conn::<process_local::Connection>(None),
            Imp::PosixSharedMemory => new_conn::<posix_shared_memory::Connection>(None),
            Imp::File => new_conn::<file::Connection>(Some(b"/tmp/hconnseq")),
        };
        let ex = drv.does_exist().map_err(|e| Fail::new("setup", "does_exist on a fresh name", e))?;
        ensure!(!ex, "setup", "does_exist on a fresh name", "the fresh name exists already");
        Ok(Sys { drv, m: Model { sender: false, receiver: false, resource: None, forced: false, round_trips: 0, generation: 0 }, coarse_key: cfg.imp != Imp::ProcessLocal })
    }
    fn enabled(&self, s: &Sys) -> Vec<Op> {
        let mut v = Vec::new();
        // attaches to a free role first (P0 first), then the duplicates
        for held_pass in [false, true] {
            if s.m.sender == held_pass {
                v.extend(ALL_PV.iter().map(|p| Op::AttachSender(*p)));
            }
            if s.m.receiver == held_pass {
                v.extend(ALL_PV.iter().map(|p| Op::AttachReceiver(*p)));
            }
            if !held_pass {
                if s.m.sender && s.m.receiver {
                    v.push(Op::Exchange);
                }
                if s.m.sender {
                    v.push(Op::DetachSender);
                }
                if s.m.receiver {
                    v.push(Op::DetachReceiver);
                }
                if s.m.sender {
                    v.push(Op::ForceRemoveSender);
                }
                if s.m.receiver {
                    v.push(Op::ForceRemoveReceiver);
                }
                // forced removal on behalf of a role that is not attached
                if !s.m.sender {
                    v.push(Op::ForceRemoveSender);
                }
                if !s.m.receiver {
                    v.push(Op::ForceRemoveReceiver);
                }
            }
        }
        v
    }
    fn apply(&self, s: &mut Sys, op: &Op) -> Result<(), Fail> {
        // whatever goes wrong: nothing may be left behind under the name
        match std::panic::catch_unwind(std::panic::AssertUnwindSafe(|| self.apply_inner(s, op))) {
            Ok(Ok(())) => Ok(()),
            Ok(Err(f)) => {
                s.drv.cleanup();
                Err(f)
            }
            Err(p) => {
                let _ = std::panic::catch_unwind(std::panic::AssertUnwindSafe(|| s.drv.cleanup()));
                std::panic::resume_unwind(p)
            }
        }
    }
    fn finish(&self, mut s: Sys) -> Result<(), Fail> {
        let r = std::panic::catch_unwind(std::panic::AssertUnwindSafe(|| self.finish_inner(&mut s)));
        let left = std::panic::catch_unwind(std::panic::AssertUnwindSafe(|| s.drv.cleanup())).unwrap_or(false);
        match r {
            Ok(Ok(())) => {
                ensure!(!left, "c13-leftover", "finish: final sweep", "something was left under the name after a clean finish");
                Ok(())
            }
            Ok(Err(f)) => Err(f),
            Err(p) => std::panic::resume_unwind(p),
        }
    }
    fn model_key(&self, s: &Sys) -> u64 {
        if s.coarse_key {
            seqx::hash_of(&(s.m.sender, s.m.receiver, s.m.forced, s.m.generation))
        } else {
            seqx::hash_of(&s.m)
        }
    }
    fn nontrivial(&self, s: &Sys) -> bool {
        s.m.sender || s.m.receiver || s.m.generation > 0
    }
}

fn main() {
    seqx::main(H);
}
