//! ptx – E2 of /verif: crash-point enumeration and pause-and-probe with ptrace (DESIGN.md §3.2).
//!
//! For every scenario (messaging pattern × role of the victim × survivor shares the service or
//! not) the victim program `crash_child` is first traced once to record its *visible* system
//! calls (the calls that change state other processes can see).  Then, for EVERY visible call k,
//! a fresh isolated domain is set up, a survivor is started, the victim is run under ptrace up to
//! the entry of call k, the survivor probes the node list while the victim is stopped there
//! (C07: a living process is never reported dead), the victim is killed with SIGKILL, and the
//! survivor performs dead-node detection, cleanup, exercises its ports with a new peer and shuts
//! down (C04, C07).  Finally the domain's files and /dev/shm objects are listed: nothing but the
//! documented per-domain persistent objects may remain.

use serde_json::{json, Value};
use std::collections::BTreeMap;
use std::io::{BufRead, BufReader, Read, Write};
use std::os::unix::process::CommandExt;
use std::path::PathBuf;
use std::process::{Child, Command, Stdio};
use std::sync::atomic::{AtomicU64, AtomicUsize, Ordering};
use std::sync::{Arc, Mutex};
use std::time::{Duration, Instant};

#[derive(Clone, Debug, serde::Serialize, serde::Deserialize, PartialEq)]
struct Scenario {
    pattern: String,
    role: String,
    mode: String, // solo | shared
}

impl Scenario {
    fn name(&self) -> String {
        format!("{}-{}-{}", self.pattern, self.role, self.mode)
    }
}

fn scenarios(tier: &str, prop: &str) -> Vec<Scenario> {
    let sc = |p: &str, r: &str, m: &str| Scenario { pattern: p.to_string(), role: r.to_string(), mode: m.to_string() };
    if tier != "thorough" {
        // quick: a subset that finishes well inside a minute; every pattern and both modes appear
        return if prop == "C07" {
            vec![sc("pubsub", "A", "shared"), sc("event", "A", "shared"), sc("reqres", "B", "shared")]
        } else {
            vec![
                sc("pubsub", "A", "shared"),
                sc("pubsub", "B", "shared"),
                sc("event", "B", "shared"),
                sc("reqres", "A", "shared"),
                sc("blackboard", "A", "shared"),
                sc("pubsub", "A", "solo"),
            ]
        };
    }
    let mut v = Vec::new();
    for p in ["pubsub", "event", "reqres", "blackboard"] {
        for r in ["A", "B"] {
            v.push(sc(p, r, "shared"));
        }
    }
    // the victim as the only user of the service
    for p in ["pubsub", "event", "reqres", "blackboard"] {
        for r in ["A", "B"] {
            v.push(sc(p, r, "solo"));
        }
    }
    v
}

// ---------------------------------------------------------------------------------------
// ptrace

#[derive(Clone, Debug, PartialEq)]
struct Sys {
    nr: u64,
    shape: String,
}

/// Is visible call `b` of this run the call `a` of the recorded run? The length of a write of a
/// serialised configuration differs by a byte or two between runs (ids and timestamps are printed
/// without leading zeros), so write lengths are not compared.
fn same_call(a: &str, b: &str) -> bool {
    let coarse = |x: &str| if x.starts_with("write(fd, len") { "write(fd, len N)".to_string() } else { x.to_string() };
    coarse(a) == coarse(b)
}

fn read_cstr(pid: i32, addr: u64) -> String {
    let mut out = Vec::new();
    let mut a = addr;
    'outer: for _ in 0..64 {
        let w = unsafe { libc::ptrace(libc::PTRACE_PEEKDATA, pid, a as *mut libc::c_void, 0 as *mut libc::c_void) };
        let bytes = (w as u64).to_le_bytes();
        for b in bytes {
            if b == 0 {
                break 'outer;
            }
            out.push(b);
        }
        a += 8;
    }
    String::from_utf8_lossy(&out).to_string()
}

struct Domain {
    root: String,
    prefix: String,
}

fn normalise(s: &str, d: &Domain) -> String {
    let mut t = s.replace(&d.root, "<root>").replace(&d.prefix, "<prefix>");
    // hashes and ids
    let mut out = String::new();
    let cs: Vec<char> = t.drain(..).collect();
    let mut i = 0;
    while i < cs.len() {
        if cs[i].is_ascii_hexdigit() {
            let mut j = i;
            while j < cs.len() && cs[j].is_ascii_hexdigit() {
                j += 1;
            }
            let run: String = cs[i..j].iter().collect();
            if j - i >= 16 {
                out.push_str(if run.chars().all(|c| c.is_ascii_digit()) { "<id>" } else { "<hash>" });
            } else {
                out.push_str(&run);
            }
            i = j;
        } else {
            out.push(cs[i]);
            i += 1;
        }
    }
    out
}

/// classification of a system call at its entry: Some(shape) if it is a visible one
fn visible(pid: i32, regs: &libc::user_regs_struct, d: &Domain) -> Option<Sys> {
    let nr = regs.orig_rax;
    let (a0, a1, a2, a3) = (regs.rdi, regs.rsi, regs.rdx, regs.r10);
    let path = |addr: u64| normalise(&read_cstr(pid, addr), d);
    let shape = match nr as i64 {
        libc::SYS_open => format!("open({}, {:#o})", path(a0), a1 & 0o3000303),
        libc::SYS_openat => format!("openat({}, {:#o})", path(a1), a2 & 0o3000303),
        libc::SYS_creat => format!("creat({})", path(a0)),
        libc::SYS_mkdir => format!("mkdir({})", path(a0)),
        libc::SYS_mkdirat => format!("mkdirat({})", path(a1)),
        libc::SYS_rmdir => format!("rmdir({})", path(a0)),
        libc::SYS_unlink => format!("unlink({})", path(a0)),
        libc::SYS_unlinkat => format!("unlinkat({})", path(a1)),
        libc::SYS_rename => format!("rename({}, {})", path(a0), path(a1)),
        libc::SYS_renameat | libc::SYS_renameat2 => format!("renameat({}, {})", path(a1), path(a3)),
        libc::SYS_link => format!("link({}, {})", path(a0), path(a1)),
        libc::SYS_linkat => format!("linkat({}, {})", path(a1), path(a3)),
        libc::SYS_symlink => format!("symlink({}, {})", path(a0), path(a1)),
        libc::SYS_chmod => format!("chmod({}, {:#o})", path(a0), a1),
        libc::SYS_fchmod => format!("fchmod(fd, {:#o})", a1),
        libc::SYS_fchmodat => format!("fchmodat({}, {:#o})", path(a1), a2),
        libc::SYS_ftruncate => format!("ftruncate(fd, {})", a1),
        libc::SYS_truncate => format!("truncate({}, {})", path(a0), a1),
        libc::SYS_fcntl => {
            let cmd = a1 as i32;
            if [libc::F_SETLK, libc::F_SETLKW, libc::F_OFD_SETLK, libc::F_OFD_SETLKW].contains(&cmd) {
                format!("fcntl(fd, lock-cmd {cmd})")
            } else {
                return None;
            }
        }
        libc::SYS_flock => format!("flock(fd, {})", a1),
        libc::SYS_mmap => {
            if a3 & (libc::MAP_SHARED as u64) != 0 && (regs.r8 as i64) >= 0 {
                format!("mmap(shared, len {})", a1)
            } else {
                return None;
            }
        }
        libc::SYS_munmap => return None,
        libc::SYS_close => {
            if (a0 as i64) > 2 {
                "close(fd)".to_string()
            } else {
                return None;
            }
        }
        libc::SYS_write | libc::SYS_pwrite64 => {
            if (a0 as i64) > 2 {
                format!("write(fd, len {})", a2)
            } else {
                return None;
            }
        }
        libc::SYS_fallocate => "fallocate(fd)".to_string(),
        libc::SYS_bind | libc::SYS_connect | libc::SYS_listen | libc::SYS_sendto | libc::SYS_sendmsg | libc::SYS_socket | libc::SYS_socketpair => {
            format!("socket-call({nr})")
        }
        libc::SYS_exit_group | libc::SYS_exit => "exit".to_string(),
        _ => return None,
    };
    Some(Sys { nr, shape })
}

enum Stop {
    /// stopped at the entry of visible call #k (0-based) – the call has not been executed
    AtCall(usize, Sys),
    Exited(i32),
    /// the traced process announced (marker 111) that it holds its handle and waits for nothing
    Hold,
}

struct Traced {
    child: Child,
    pid: i32,
    in_syscall: bool,
    started: bool,
    ended: bool,
    count: usize,
    phase: usize,
    pub log: Vec<Sys>,
}

impl Traced {
    fn spawn(exe: &PathBuf, args: &[String]) -> Traced {
        let mut cmd = Command::new(exe);
        cmd.args(args).stdin(Stdio::null()).stdout(Stdio::piped()).stderr(Stdio::null());
        unsafe {
            cmd.pre_exec(|| {
                libc::ptrace(libc::PTRACE_TRACEME, 0, 0, 0);
                Ok(())
            });
        }
        let child = cmd.spawn().expect("spawn victim");
        let pid = child.id() as i32;
        let mut status = 0;
        unsafe {
            libc::waitpid(pid, &mut status, libc::__WALL);
            libc::ptrace(
                libc::PTRACE_SETOPTIONS,
                pid,
                0,
                (libc::PTRACE_O_TRACESYSGOOD | libc::PTRACE_O_EXITKILL) as *mut libc::c_void,
            );
        }
        Traced { child, pid, in_syscall: false, started: false, ended: false, count: 0, phase: 0, log: Vec::new() }
    }

    /// run until the entry of the next visible call after the start marker, or until exit
    fn run_to_next_visible(&mut self, d: &Domain) -> Stop {
        let mut sig: i32 = 0;
        loop {
            let mut status = 0;
            unsafe {
                libc::ptrace(libc::PTRACE_SYSCALL, self.pid, 0, sig as *mut libc::c_void);
                libc::waitpid(self.pid, &mut status, libc::__WALL);
            }
            sig = 0;
            if libc::WIFEXITED(status) {
                return Stop::Exited(libc::WEXITSTATUS(status));
            }
            if libc::WIFSIGNALED(status) {
                return Stop::Exited(128 + libc::WTERMSIG(status));
            }
            if !libc::WIFSTOPPED(status) {
                continue;
            }
            let s = libc::WSTOPSIG(status);
            if s == (libc::SIGTRAP | 0x80) {
                self.in_syscall = !self.in_syscall;
                if !self.in_syscall {
                    continue; // syscall exit
                }
                let mut regs: libc::user_regs_struct = unsafe { std::mem::zeroed() };
                unsafe {
                    libc::ptrace(libc::PTRACE_GETREGS, self.pid, 0, &mut regs as *mut _ as *mut libc::c_void);
                }
                // markers: write(-1, _, 77 | 78)
                if regs.orig_rax as i64 == libc::SYS_write && regs.rdi as i32 == -1 {
                    if regs.rdx == 77 {
                        self.started = true;
                    } else if regs.rdx == 78 {
                        self.ended = true;
                    } else if regs.rdx >= 100 && regs.rdx < 110 {
                        self.phase = (regs.rdx - 100) as usize;
                    } else if regs.rdx == 111 {
                        return Stop::Hold;
                    }
                    continue;
                }
                if !self.started || self.ended {
                    continue;
                }
                if let Some(sys) = visible(self.pid, &regs, d) {
                    let k = self.count;
                    self.count += 1;
                    self.log.push(sys.clone());
                    return Stop::AtCall(k, sys);
                }
            } else if s == libc::SIGTRAP {
                // exec / other ptrace event
            } else {
                sig = s; // deliver
            }
        }
    }

    fn kill(&mut self) {
        unsafe {
            libc::kill(self.pid, libc::SIGKILL);
        }
        let _ = self.child.wait();
    }

    fn stdout(&mut self) -> String {
        let mut s = String::new();
        if let Some(mut o) = self.child.stdout.take() {
            let _ = o.read_to_string(&mut s);
        }
        s
    }
}

// ---------------------------------------------------------------------------------------

struct Survivor {
    child: Child,
    out: BufReader<std::process::ChildStdout>,
}

impl Survivor {
    /// like `start`, for a helper that announces itself with another first line
    fn start_with(exe: &PathBuf, args: &[String], ready: &str) -> Result<Survivor, String> {
        let mut child = Command::new(exe).args(args).stdin(Stdio::piped()).stdout(Stdio::piped()).stderr(Stdio::null()).spawn().map_err(|e| format!("{e}"))?;
        let out = BufReader::new(child.stdout.take().unwrap());
        let mut s = Survivor { child, out };
        let l = s.read_line(Duration::from_secs(20))?;
        if l.trim() != ready {
            return Err(format!("helper said {l:?} instead of {ready}"));
        }
        Ok(s)
    }

    fn start(exe: &PathBuf, args: &[String]) -> Result<Survivor, String> {
        let mut child = Command::new(exe)
            .args(args)
            .stdin(Stdio::piped())
            .stdout(Stdio::piped())
            .stderr(if std::env::var("PTX_LOG").is_ok() { Stdio::inherit() } else { Stdio::null() })
            .spawn()
            .map_err(|e| format!("{e}"))?;
        let out = BufReader::new(child.stdout.take().unwrap());
        let mut s = Survivor { child, out };
        let l = s.read_line(Duration::from_secs(20))?;
        if l.trim() != "READY" {
            return Err(format!("survivor said {l:?} instead of READY"));
        }
        Ok(s)
    }

    fn read_line(&mut self, timeout: Duration) -> Result<String, String> {
        // poll the pipe so that a hanging survivor is detected
        use std::os::unix::io::AsRawFd;
        let fd = self.out.get_ref().as_raw_fd();
        if self.out.buffer().is_empty() {
            let mut p = libc::pollfd { fd, events: libc::POLLIN, revents: 0 };
            let r = unsafe { libc::poll(&mut p, 1, timeout.as_millis() as i32) };
            if r <= 0 {
                return Err("timeout".into());
            }
        }
        let mut l = String::new();
        match self.out.read_line(&mut l) {
            Ok(0) => Err("eof".into()),
            Ok(_) => Ok(l),
            Err(e) => Err(format!("{e}")),
        }
    }

    fn cmd(&mut self, c: &str, timeout: Duration) -> Result<String, String> {
        let stdin = self.child.stdin.as_mut().ok_or("no stdin")?;
        stdin.write_all(format!("{c}\n").as_bytes()).map_err(|e| format!("{e}"))?;
        stdin.flush().map_err(|e| format!("{e}"))?;
        self.read_line(timeout)
    }

    fn finish(mut self) -> Option<i32> {
        drop(self.child.stdin.take());
        let t0 = Instant::now();
        loop {
            match self.child.try_wait() {
                Ok(Some(st)) => return st.code(),
                _ => {}
            }
            if t0.elapsed() > Duration::from_secs(10) {
                let _ = self.child.kill();
                let _ = self.child.wait();
                return None;
            }
            std::thread::sleep(Duration::from_millis(5));
        }
    }
}

fn leftovers(d: &Domain) -> Vec<String> {
    let mut v = Vec::new();
    fn walk(p: &std::path::Path, d: &Domain, v: &mut Vec<String>) {
        if let Ok(rd) = std::fs::read_dir(p) {
            for e in rd.flatten() {
                let path = e.path();
                if path.is_dir() {
                    // directories below the two documented ones are node/service owned
                    let rel = path.strip_prefix(&d.root).unwrap_or(&path).to_string_lossy().to_string();
                    if rel.matches('/').count() >= 1 {
                        v.push(format!("dir {}", normalise(&path.to_string_lossy(), d)));
                    }
                    walk(&path, d, v);
                } else {
                    v.push(format!("file {}", normalise(&path.to_string_lossy(), d)));
                }
            }
        }
    }
    walk(std::path::Path::new(&d.root), d, &mut v);
    if let Ok(rd) = std::fs::read_dir("/dev/shm") {
        for e in rd.flatten() {
            let n = e.file_name().to_string_lossy().to_string();
            if n.starts_with(&d.prefix) || n.contains(&d.prefix) {
                // the domain-wide management segment persists by design
                if n.ends_with(".global_mgmt") {
                    continue;
                }
                v.push(format!("shm {}", normalise(&n, d)));
            }
        }
    }
    v.sort();
    v
}

fn remove_domain(d: &Domain) {
    let _ = std::fs::remove_dir_all(&d.root);
    if let Ok(rd) = std::fs::read_dir("/dev/shm") {
        for e in rd.flatten() {
            let n = e.file_name().to_string_lossy().to_string();
            if n.contains(&d.prefix) {
                let _ = std::fs::remove_file(e.path());
            }
        }
    }
}

static RUN_COUNTER: AtomicU64 = AtomicU64::new(0);

fn new_domain() -> Domain {
    let n = RUN_COUNTER.fetch_add(1, Ordering::SeqCst);
    // fixed width: the serialised configuration of a node contains these strings, and the
    // lengths of the victim's writes must not depend on the run number
    let tag = format!("x{:07}r{:06}_", std::process::id() % 10_000_000, n % 1_000_000);
    let root = format!("/verif/.run/ptx/{tag}");
    std::fs::create_dir_all(&root).unwrap();
    use std::os::unix::fs::PermissionsExt;
    let _ = std::fs::set_permissions(&root, std::fs::Permissions::from_mode(0o777));
    Domain { root: format!("{root}/"), prefix: tag }
}

#[derive(Clone, Debug, Default, serde::Serialize)]
struct PointResult {
    scenario: String,
    k: usize,
    shape: String,
    ordinal: usize,
    phase: String,
    probe: String,
    problems: Vec<String>,
    notes: Vec<String>,
    leftovers: Vec<String>,
    wall_ms: u64,
}

fn exe(name: &str) -> PathBuf {
    let mut p = std::env::current_exe().unwrap();
    p.pop();
    p.push(name);
    p
}

fn scn_args(s: &Scenario, d: &Domain) -> Vec<String> {
    vec![s.pattern.clone(), s.role.clone(), s.mode.clone(), d.root.clone(), d.prefix.clone(), "svc".to_string()]
}

/// one complete run: kill the victim before visible call `k` (None = let it finish)
fn run_point(s: &Scenario, k: Option<usize>, expect_shape: Option<&str>, prop: &str) -> Result<(PointResult, Vec<Sys>), String> {
    let t0 = Instant::now();
    let d = new_domain();
    let args = scn_args(s, &d);
    let mut res = PointResult { scenario: s.name(), k: k.unwrap_or(usize::MAX), ..Default::default() };
    let mut sv = Survivor::start(&exe("crash_survivor"), &args).map_err(|e| format!("survivor start: {e}"))?;
    let mut victim = Traced::spawn(&exe("crash_child"), &args);
    let mut killed = false;
    loop {
        match victim.run_to_next_visible(&d) {
            Stop::AtCall(i, sys) => {
                if Some(i) == k {
                    res.shape = sys.shape.clone();
                    res.phase = PHASES.get(victim.phase).unwrap_or(&"?").to_string();
                    res.ordinal = victim.log.iter().filter(|x| x.shape == sys.shape).count();
                    if let Some(e) = expect_shape {
                        if !same_call(e, &sys.shape) {
                            victim.kill();
                            let _ = sv.cmd("QUIT", Duration::from_secs(5));
                            sv.finish();
                            remove_domain(&d);
                            return Err(format!("divergence: visible call {i} is {:?}, recorded run had {:?}", sys.shape, e));
                        }
                    }
                    // the victim is alive and stopped: what do others see?
                    match sv.cmd("PROBE", Duration::from_secs(10)) {
                        Ok(l) => {
                            res.probe = l.trim().to_string();
                            if let Some(dead) = l.split_whitespace().find_map(|t| t.strip_prefix("dead=")) {
                                if dead != "0" {
                                    res.problems.push(format!("c07-alive-reported-dead: the victim is alive (stopped before its call) but listed as dead: {}", l.trim()));
                                }
                            }
                            if l.contains("error=") {
                                res.problems.push(format!("c07-probe-failed: {}", l.trim()));
                            }
                        }
                        Err(e) => res.problems.push(format!("survivor-hang: PROBE: {e}")),
                    }
                    victim.kill();
                    killed = true;
                    break;
                }
            }
            Stop::Hold => {}
            Stop::Exited(code) => {
                if k.is_some() {
                    // fewer visible calls than in the recorded run
                    let _ = sv.cmd("QUIT", Duration::from_secs(5));
                    sv.finish();
                    remove_domain(&d);
                    return Err(format!("divergence: victim exited (code {code}) before visible call {}", k.unwrap()));
                }
                let out = victim.stdout();
                if code != 0 || out.contains("VICTIM-ERROR") {
                    res.problems.push(format!("victim-failed: exit {code}: {}", out.trim()));
                }
                break;
            }
        }
    }
    let _ = killed;
    match sv.cmd("CHECK", Duration::from_secs(12)) {
        Ok(l) => {
            if let Some(j) = l.trim().strip_prefix("REPORT ") {
                match serde_json::from_str::<Value>(j) {
                    Ok(v) => {
                        for p in v["problems"].as_array().cloned().unwrap_or_default() {
                            res.problems.push(normalise(p.as_str().unwrap_or(""), &d));
                        }
                        for n in v["notes"].as_array().cloned().unwrap_or_default() {
                            res.notes.push(n.as_str().unwrap_or("").to_string());
                        }
                    }
                    Err(e) => res.problems.push(format!("survivor-report-unreadable: {e}")),
                }
            } else {
                res.problems.push(format!("survivor-crashed: unexpected answer {l:?}"));
            }
        }
        Err(e) => res.problems.push(format!("survivor-hang-or-crash: CHECK: {e}")),
    }
    match sv.finish() {
        Some(0) => {}
        Some(c) => res.problems.push(format!("survivor-crashed: exit code {c}")),
        None => res.problems.push("survivor-hang: did not exit".into()),
    }
    res.leftovers = leftovers(&d);
    if !res.leftovers.is_empty() {
        res.problems.push(format!("leftover: {}", res.leftovers.join(", ")));
    }
    remove_domain(&d);
    // property split: C07 owns the liveness verdict tags, C04 everything else
    let c07 = |p: &String| p.starts_with("c07-") || p.starts_with("dead-node-reported") || p.starts_with("dead-node-inaccessible");
    if prop == "C07" {
        res.problems.retain(|p| c07(p) || p.starts_with("cleanup-failed") || p.starts_with("survivor-hang"));
    } else {
        res.problems.retain(|p| !p.starts_with("c07-"));
    }
    res.wall_ms = t0.elapsed().as_millis() as u64;
    Ok((res, victim.log.clone()))
}

const PHASES: [&str; 8] = ["node-create", "service-open-or-create", "port-create", "traffic", "port-drop", "service-drop", "node-drop", "done"];


// ---------------------------------------------------------------------------------------
// C07 cleaner leg: two cleaners race for one dead node (all single-preemption interleavings at
// system-call granularity), and a cleaner that dies itself at every point of its cleanup

fn run_untraced(name: &str, args: &[String], timeout: Duration) -> Result<String, String> {
    let mut child = Command::new(exe(name))
        .args(args)
        .stdin(Stdio::null())
        .stdout(Stdio::piped())
        .stderr(Stdio::null())
        .spawn()
        .map_err(|e| format!("{e}"))?;
    let t0 = Instant::now();
    loop {
        match child.try_wait() {
            Ok(Some(_)) => break,
            _ => {}
        }
        if t0.elapsed() > timeout {
            let _ = child.kill();
            let _ = child.wait();
            return Err("timeout".into());
        }
        std::thread::sleep(Duration::from_millis(3));
    }
    let mut out = String::new();
    if let Some(mut o) = child.stdout.take() {
        let _ = o.read_to_string(&mut out);
    }
    Ok(out)
}

/// a victim that is completely set up (node, service, port, traffic) and then killed
fn make_dead_victim(s: &Scenario, d: &Domain) -> Result<(), String> {
    let args = scn_args(s, d);
    let mut victim = Traced::spawn(&exe("crash_child"), &args);
    loop {
        match victim.run_to_next_visible(d) {
            Stop::AtCall(_, _) => {
                if victim.phase >= 4 {
                    victim.kill();
                    return Ok(());
                }
            }
            Stop::Hold => {}
            Stop::Exited(c) => return Err(format!("victim exited ({c}) before it was set up")),
        }
    }
}

fn clean_ok_count(out: &str) -> usize {
    out.lines().filter(|l| l.trim() == "CLEAN ok").count()
}

fn refusals(out: &str) -> Vec<String> {
    out.lines().filter_map(|l| l.trim().strip_prefix("CLEAN ")).filter(|r| *r != "ok").map(|r| r.to_string()).collect()
}

fn done_field(out: &str, key: &str) -> Option<u64> {
    out.lines().find(|l| l.starts_with("CLEANER-DONE"))?.split_whitespace().find_map(|t| t.strip_prefix(key).and_then(|v| v.parse().ok()))
}

/// cleaner A is stopped before its visible call `k`; cleaner B runs to completion meanwhile; then
/// A continues (`kill_a == false`) or is killed and a third cleaner C runs (`kill_a == true`)
fn cleaner_point(s: &Scenario, k: Option<usize>, kill_a: bool, expect_shape: Option<&str>) -> Result<(PointResult, Vec<Sys>), String> {
    let t0 = Instant::now();
    let d = new_domain();
    let args = scn_args(s, &d);
    let variant = if kill_a { "cleaner-dies" } else { "two-cleaners" };
    let mut res = PointResult { scenario: format!("{variant}({})", s.name()), k: k.unwrap_or(usize::MAX), phase: "cleanup".into(), ..Default::default() };
    if let Err(e) = make_dead_victim(s, &d) {
        remove_domain(&d);
        return Err(e);
    }
    let mut a = Traced::spawn(&exe("crash_cleaner"), &args);
    let mut a_done = false;
    loop {
        match a.run_to_next_visible(&d) {
            Stop::AtCall(i, sys) => {
                if Some(i) == k {
                    res.shape = sys.shape.clone();
                    res.ordinal = a.log.iter().filter(|x| x.shape == sys.shape).count();
                    if let Some(e) = expect_shape {
                        if !same_call(e, &sys.shape) {
                            a.kill();
                            remove_domain(&d);
                            return Err(format!("divergence: cleaner call {i} is {:?}, recorded run had {:?}", sys.shape, e));
                        }
                    }
                    break;
                }
            }
            Stop::Hold => {}
            Stop::Exited(_) => {
                a_done = true;
                break;
            }
        }
    }
    if k.is_some() && a_done {
        remove_domain(&d);
        return Err(format!("divergence: cleaner finished before visible call {}", k.unwrap()));
    }
    let mut oks = 0;
    let mut all_refusals: Vec<String> = Vec::new();
    if !a_done {
        // B runs while A is stopped in the middle of its cleanup
        match run_untraced("crash_cleaner", &args, Duration::from_secs(40)) {
            Ok(out) => {
                oks += clean_ok_count(&out);
                all_refusals.extend(refusals(&out));
                res.notes.push(format!("B: {}", out.trim().replace('\n', " | ")));
            }
            Err(e) => res.problems.push(format!("c07-cleaner-hang: second cleaner: {e}")),
        }
        if kill_a {
            a.kill();
            match run_untraced("crash_cleaner", &args, Duration::from_secs(40)) {
                Ok(out) => {
                    oks += clean_ok_count(&out);
                    all_refusals.extend(refusals(&out));
                    res.notes.push(format!("C: {}", out.trim().replace('\n', " | ")));
                }
                Err(e) => res.problems.push(format!("c07-cleaner-hang: third cleaner: {e}")),
            }
        } else {
            loop {
                match a.run_to_next_visible(&d) {
                    Stop::AtCall(_, _) | Stop::Hold => {}
                    Stop::Exited(code) => {
                        if code != 0 {
                            res.problems.push(format!("c07-cleaner-crashed: the interrupted cleaner exited with {code}"));
                        }
                        break;
                    }
                }
            }
        }
    }
    if !kill_a || a_done {
        let out = a.stdout();
        oks += clean_ok_count(&out);
        all_refusals.extend(refusals(&out));
        res.notes.push(format!("A: {}", out.trim().replace('\n', " | ")));
    }
    // final look: nothing may be left to clean, and nothing may be left behind
    match run_untraced("crash_cleaner", &args, Duration::from_secs(40)) {
        Ok(out) => {
            let dead = done_field(&out, "dead=").unwrap_or(99);
            let alive = done_field(&out, "alive=").unwrap_or(99);
            if dead != 0 || alive != 0 {
                res.problems.push(format!(
                    "c07-uncollected-after-cleaners: after all cleaners finished a further look still finds dead={dead} alive={alive} ({})",
                    if kill_a { "one cleaner was killed in the middle of its cleanup" } else { "two cleaners ran concurrently" }
                ));
            }
        }
        Err(e) => res.problems.push(format!("c07-cleaner-hang: final look: {e}")),
    }
    if !kill_a && oks > 1 {
        res.problems.push(format!("c07-cleanup-not-exclusive: {oks} cleaners report a successful cleanup of the same dead node"));
    }
    for r in &all_refusals {
        let documented = ["AnotherInstanceIsCleaningUpTheNode", "ResourcesAlreadyCleanedUp"];
        if !documented.contains(&r.as_str()) {
            res.problems.push(format!("c07-cleaner-refusal-undocumented: a competing cleaner was refused with {r}"));
        }
    }
    res.leftovers = leftovers(&d);
    if !res.leftovers.is_empty() {
        res.problems.push(format!("c07-leftover-after-cleaners: {}", res.leftovers.join(", ")));
    }
    remove_domain(&d);
    res.wall_ms = t0.elapsed().as_millis() as u64;
    Ok((res, a.log.clone()))
}

// ---------------------------------------------------------------------------------------
// C07 cleaner leg, refused cleaner: another process holds a lock on the owner-lock file of the dead
// node at the moment a cleaner tries to take it (the position of a cleaner that lost the race for
// the lock). The refused cleaner must be told so and must leave the monitoring files alone; once
// the lock is gone a cleaner succeeds.

fn refused_cleaner_point(s: &Scenario) -> Result<(PointResult, Vec<Sys>), String> {
    let t0 = Instant::now();
    let d = new_domain();
    let args = scn_args(s, &d);
    let mut res = PointResult { scenario: format!("refused-cleaner({})", s.name()), k: 0, shape: "(another process holds the owner lock)".into(), phase: "cleanup-refused".into(), ..Default::default() };
    if let Err(e) = make_dead_victim(s, &d) {
        remove_domain(&d);
        return Err(e);
    }
    let monitor_files = |d: &Domain| -> Vec<String> { leftovers(d).into_iter().filter(|l| l.contains(".node_monitor")).collect() };
    let before = monitor_files(&d);
    let owner_lock = std::fs::read_dir(format!("{}nodes", d.root)).ok().and_then(|rd| rd.flatten().map(|e| e.path()).find(|p| p.to_string_lossy().ends_with(".node_monitor_owner_lock")));
    let Some(owner_lock) = owner_lock else {
        remove_domain(&d);
        return Err("refused-cleaner: the dead victim has no owner-lock file".into());
    };
    let mut holder = match Survivor::start_with(&std::env::current_exe().unwrap(), &["--hold-lock".to_string(), owner_lock.to_string_lossy().to_string()], "LOCKED") {
        Ok(h) => h,
        Err(e) => {
            remove_domain(&d);
            return Err(format!("refused-cleaner: lock holder: {e}"));
        }
    };
    match run_untraced("crash_cleaner", &args, Duration::from_secs(40)) {
        Ok(out) => {
            res.notes.push(format!("while the lock is held: {}", out.trim().replace('\n', " | ")));
            if clean_ok_count(&out) > 0 {
                res.problems.push("c07-cleanup-not-exclusive: a cleaner reports a successful cleanup although another process holds the owner lock".to_string());
            }
            for r in refusals(&out) {
                if !["AnotherInstanceIsCleaningUpTheNode", "ResourcesAlreadyCleanedUp"].contains(&r.as_str()) {
                    res.problems.push(format!("c07-cleaner-refusal-undocumented: the refused cleaner was told {r}"));
                }
            }
        }
        Err(e) => res.problems.push(format!("c07-cleaner-hang: refused cleaner: {e}")),
    }
    let after = monitor_files(&d);
    if after != before {
        res.problems.push(format!("c07-refused-cleaner-removed-files: the monitoring files of the dead node changed from {before:?} to {after:?} although the cleaner was refused"));
    }
    let _ = holder.finish();
    match run_untraced("crash_cleaner", &args, Duration::from_secs(40)) {
        Ok(out) => {
            res.notes.push(format!("after the lock is gone: {}", out.trim().replace('\n', " | ")));
            let dead = done_field(&out, "remaining_dead=").unwrap_or(99);
            if dead != 0 {
                res.problems.push(format!("c07-uncollected-after-cleaners: the lock holder is gone but a cleaner leaves remaining_dead={dead}"));
            }
        }
        Err(e) => res.problems.push(format!("c07-cleaner-hang: cleaner after the lock is gone: {e}")),
    }
    res.leftovers = leftovers(&d);
    if !res.leftovers.is_empty() {
        res.problems.push(format!("c07-leftover-after-cleaners: {}", res.leftovers.join(", ")));
    }
    remove_domain(&d);
    res.wall_ms = t0.elapsed().as_millis() as u64;
    Ok((res, Vec::new()))
}

// ---------------------------------------------------------------------------------------
// C07 cleaner leg, threads: two THREADS of one process (`cleaner_mt`) clean up the same dead node of
// a really killed foreign process; thread A is held before its k-th state-changing libc call
// inside try_remove_stale_resources() while thread B runs its complete attempt.
// Returns the names of A's intercepted calls of this run.

fn cleaner_threads_point(s: &Scenario, k: Option<usize>, expect_name: Option<&str>) -> Result<(PointResult, Vec<Sys>), String> {
    let t0 = Instant::now();
    let d = new_domain();
    let mut args = scn_args(s, &d);
    let mut res = PointResult { scenario: format!("cleaner-threads({})", s.name()), k: k.unwrap_or(usize::MAX), phase: "cleanup-threads".into(), ..Default::default() };
    if let Err(e) = make_dead_victim(s, &d) {
        remove_domain(&d);
        return Err(e);
    }
    let final_args = args.clone();
    args.push(match k {
        Some(k) => format!("{k}"),
        None => "-1".to_string(),
    });
    let out = match run_untraced("cleaner_mt", &args, Duration::from_secs(30)) {
        Ok(o) => o,
        Err(e) => {
            res.problems.push(format!("c07-cleaner-hang: two cleaner threads: {e}"));
            String::new()
        }
    };
    let calls: Vec<Sys> = out.lines().filter_map(|l| l.strip_prefix("CALL ")).map(|l| Sys { nr: 0, shape: l.split_whitespace().nth(1).unwrap_or("?").to_string() }).collect();
    if let Some(k) = k {
        match calls.get(k) {
            Some(c) => {
                res.shape = c.shape.clone();
                res.ordinal = calls[..=k].iter().filter(|x| x.shape == c.shape).count();
                if let Some(e) = expect_name {
                    if e != c.shape {
                        remove_domain(&d);
                        return Err(format!("divergence: intercepted call {k} of thread A is {:?}, recorded run had {:?}", c.shape, e));
                    }
                }
            }
            None => {
                if !out.is_empty() {
                    remove_domain(&d);
                    return Err(format!("divergence: thread A made only {} intercepted calls, stop point {k} not reached", calls.len()));
                }
            }
        }
    }
    let result_of = |who: &str| -> Vec<String> {
        out.lines().find_map(|l| l.strip_prefix(&format!("{who} "))).map(|r| r.split(',').map(|x| x.trim().to_string()).collect()).unwrap_or_default()
    };
    let (ra, rb) = (result_of("A"), result_of("B"));
    res.notes.push(format!("A: {ra:?}; B: {rb:?}"));
    res.probe = format!("A={} B={}{}", ra.join("+"), rb.join("+"), if out.contains("b_blocked_while_a_was_held=true") { " (B blocked while A was held)" } else { "" });
    if !out.is_empty() {
        let oks = ra.iter().chain(rb.iter()).filter(|r| *r == "ok").count();
        if oks > 1 {
            res.problems.push(format!("c07-cleanup-not-exclusive: {oks} cleaner threads of one process report a successful cleanup of the same dead node"));
        }
        for r in ra.iter().chain(rb.iter()) {
            let documented = ["ok", "nothing-dead", "AnotherInstanceIsCleaningUpTheNode", "ResourcesAlreadyCleanedUp"];
            if !documented.contains(&r.as_str()) {
                res.problems.push(format!("c07-cleaner-refusal-undocumented: a cleaner thread was refused with {r}"));
            }
        }
        if ra.is_empty() || rb.is_empty() || out.contains("panicked") {
            res.problems.push(format!("c07-cleaner-crashed: output of the two cleaner threads: {}", out.trim().replace('\n', " | ")));
        }
    }
    match run_untraced("crash_cleaner", &final_args, Duration::from_secs(40)) {
        Ok(o) => {
            let dead = done_field(&o, "dead=").unwrap_or(99);
            let alive = done_field(&o, "alive=").unwrap_or(99);
            if dead != 0 || alive != 0 {
                res.problems.push(format!("c07-uncollected-after-cleaners: after both cleaner threads finished a further look still finds dead={dead} alive={alive}"));
            }
        }
        Err(e) => res.problems.push(format!("c07-cleaner-hang: final look: {e}")),
    }
    res.leftovers = leftovers(&d);
    if !res.leftovers.is_empty() {
        res.problems.push(format!("c07-leftover-after-cleaners: {}", res.leftovers.join(", ")));
    }
    remove_domain(&d);
    res.wall_ms = t0.elapsed().as_millis() as u64;
    Ok((res, calls))
}

// ---------------------------------------------------------------------------------------
// C04 atomic-operation leg: the victim (built against the atomics drop-in) kills itself before
// its N-th atomic operation, for every N: crash points between two shared-memory writes

fn mc_exe(name: &str) -> PathBuf {
    // <verif>/.target-seq/debug/ptx -> <verif>/.target-mc/debug/<name>
    let mut p = std::env::current_exe().unwrap();
    p.pop();
    p.pop();
    p.pop();
    p.push(".target-mc");
    p.push("debug");
    p.push(name);
    p
}

fn run_mc_victim(args: &[String], crash_at: Option<u64>) -> Result<(String, Option<i32>), String> {
    let mut cmd = Command::new(mc_exe("crash_child_mc"));
    cmd.args(args).stdin(Stdio::null()).stdout(Stdio::piped()).stderr(Stdio::null()).env("PTX_PRINT_PHASE", "1");
    if let Some(n) = crash_at {
        cmd.env("PTX_CRASH_AT", n.to_string());
    }
    let mut child = cmd.spawn().map_err(|e| format!("cannot start crash_child_mc: {e}"))?;
    let t0 = Instant::now();
    let st = loop {
        match child.try_wait() {
            Ok(Some(st)) => break st,
            _ => {}
        }
        if t0.elapsed() > Duration::from_secs(20) {
            let _ = child.kill();
            let _ = child.wait();
            return Err("victim did not finish".into());
        }
        std::thread::sleep(Duration::from_millis(2));
    };
    let mut out = String::new();
    if let Some(mut o) = child.stdout.take() {
        let _ = o.read_to_string(&mut out);
    }
    Ok((out, st.code()))
}

fn atomic_point(s: &Scenario, n: Option<u64>) -> Result<(PointResult, u64), String> {
    let t0 = Instant::now();
    let d = new_domain();
    let args = scn_args(s, &d);
    let mut res = PointResult { scenario: format!("atomic({})", s.name()), k: n.map(|n| n as usize).unwrap_or(usize::MAX), ..Default::default() };
    let mut sv = Survivor::start(&exe("crash_survivor"), &args).map_err(|e| format!("survivor start: {e}"))?;
    let (out, code) = match run_mc_victim(&args, n) {
        Ok(x) => x,
        Err(e) => {
            let _ = sv.cmd("QUIT", Duration::from_secs(5));
            sv.finish();
            remove_domain(&d);
            return Err(e);
        }
    };
    let phase = out.lines().filter_map(|l| l.strip_prefix("PHASE ")).last().and_then(|p| p.trim().parse::<usize>().ok()).unwrap_or(0);
    res.phase = PHASES.get(phase).unwrap_or(&"?").to_string();
    res.shape = format!("atomic operation #{}", n.map(|n| n.to_string()).unwrap_or_else(|| "-".into()));
    let total = out.lines().find_map(|l| l.strip_prefix("ATOMIC-OPS ")).and_then(|v| v.trim().parse::<u64>().ok()).unwrap_or(0);
    if n.is_none() && (code != Some(0) || out.contains("VICTIM-ERROR")) {
        res.problems.push(format!("victim-failed: exit {code:?}: {}", out.trim()));
    }
    if n.is_some() && code == Some(0) && total > 0 {
        // the victim finished before reaching operation n: fewer operations than in the counting run
        let _ = sv.cmd("QUIT", Duration::from_secs(5));
        sv.finish();
        remove_domain(&d);
        return Err(format!("divergence: victim finished after {total} atomic operations, kill point {} not reached", n.unwrap()));
    }
    match sv.cmd("CHECK", Duration::from_secs(12)) {
        Ok(l) => {
            if let Some(j) = l.trim().strip_prefix("REPORT ") {
                if let Ok(v) = serde_json::from_str::<Value>(j) {
                    for p in v["problems"].as_array().cloned().unwrap_or_default() {
                        res.problems.push(normalise(p.as_str().unwrap_or(""), &d));
                    }
                    for n in v["notes"].as_array().cloned().unwrap_or_default() {
                        res.notes.push(n.as_str().unwrap_or("").to_string());
                    }
                } else {
                    res.problems.push("survivor-report-unreadable".into());
                }
            } else {
                res.problems.push(format!("survivor-crashed: unexpected answer {l:?}"));
            }
        }
        Err(e) => res.problems.push(format!("survivor-hang-or-crash: CHECK: {e}")),
    }
    match sv.finish() {
        Some(0) => {}
        Some(c) => res.problems.push(format!("survivor-crashed: exit code {c}")),
        None => res.problems.push("survivor-hang: did not exit".into()),
    }
    res.leftovers = leftovers(&d);
    if !res.leftovers.is_empty() {
        res.problems.push(format!("leftover: {}", res.leftovers.join(", ")));
    }
    remove_domain(&d);
    res.problems.retain(|p| !p.starts_with("c07-"));
    res.wall_ms = t0.elapsed().as_millis() as u64;
    Ok((res, total))
}

/// `two-cleaners(pubsub-A-shared)` -> ("two-cleaners", scenario) ; plain scenario names -> ("kill", scenario)
// ---------------------------------------------------------------------------------------
// C06 process leg: two processes and one service. The first party (traced) performs `create` or
// `open_or_create`, holds the handle, drops it; it is paused before visible call k of its service
// creation or of its service drop, and while it is paused the second party (untraced) runs one
// complete `create` / `open` / `open_or_create` with other settings. Then the first party is
// resumed. All single-preemption interleavings of the two calls at system-call granularity.
// Scenario fields: pattern, role = operation of the first party, mode = operation of the second.

fn race_scenarios(tier: &str) -> Vec<Scenario> {
    let sc = |p: &str, v: &str, r: &str| Scenario { pattern: p.to_string(), role: v.to_string(), mode: r.to_string() };
    if tier != "thorough" {
        // every operation of either party and every pattern class once; sized to finish within the time cap
        return vec![
            sc("pubsub", "create", "create"),
            sc("pubsub", "create", "open"),
            sc("pubsub", "ooc", "ooc"),
            sc("pubsub", "ooc", "create"),
            sc("event", "ooc", "open"),
            sc("blackboard", "create", "open"),
        ];
    }
    let mut v = Vec::new();
    for p in ["pubsub", "event", "reqres"] {
        for vop in ["create", "ooc"] {
            for rop in ["create", "open", "ooc"] {
                v.push(sc(p, vop, rop));
            }
        }
    }
    for rop in ["create", "open"] {
        v.push(sc("blackboard", "create", rop));
    }
    v
}

/// innermost variant name of an error's Debug text: "PublishSubscribeOpenError(DoesNotExist)" -> "DoesNotExist"
fn innermost(e: &str) -> String {
    let t = e.trim().trim_end_matches(')');
    t.rsplit('(').next().unwrap_or(t).trim().to_string()
}

fn documented_race_error(op: &str, pattern: &str, e: &str) -> bool {
    let v = innermost(e);
    let open = ["DoesNotExist", "IsMarkedForDestruction", "HangsInCreation"];
    let create = ["AlreadyExists", "IsBeingCreatedByAnotherInstance", "HangsInCreation"];
    match op {
        "create" => create.contains(&v.as_str()),
        // blackboard: the payload segments appear after the static config is finalised; an opener in
        // between finds them missing, which is what ServiceInCorruptedState documents (DESIGN §9.4)
        "open" => open.contains(&v.as_str()) || (pattern == "blackboard" && v == "ServiceInCorruptedState"),
        // open_or_create: its settings are also requirements when it ends up opening
        _ => open.contains(&v.as_str()) || create.contains(&v.as_str()) || v == "SystemInFlux" || v.starts_with("DoesNotSupportRequestedAmountOf"),
    }
}

fn field<'a>(line: &'a str, key: &str) -> Option<&'a str> {
    line.split_whitespace().find_map(|t| t.strip_prefix(key))
}

/// pseudo kill point: the second party acts while the first one holds its handle
const HOLD_POINT: usize = 1_000_000;

fn race_point(s: &Scenario, k: Option<usize>, expect_shape: Option<&str>) -> Result<(PointResult, Vec<Sys>), String> {
    let t0 = Instant::now();
    let d = new_domain();
    let (vop, rop) = (s.role.clone(), s.mode.clone());
    let base: Vec<String> = vec![s.pattern.clone(), "A".into(), "shared".into(), d.root.clone(), d.prefix.clone(), "svc".into()];
    let mut res = PointResult { scenario: format!("race({})", s.name()), k: k.unwrap_or(usize::MAX), ..Default::default() };
    let mut peer = match Survivor::start(&exe("race_peer"), &base) {
        Ok(p) => p,
        Err(e) => {
            remove_domain(&d);
            return Err(format!("peer start: {e}"));
        }
    };
    let mut first_args = base.clone();
    first_args.push(vop.clone());
    let mut first = Traced::spawn(&exe("race_first"), &first_args);
    let mut peer_result: Option<String> = None;
    let mut report_hold: Option<String> = None;
    let mut paused_in_creation = false;
    let timeout = Duration::from_secs(15);
    let exit_code;
    loop {
        match first.run_to_next_visible(&d) {
            Stop::AtCall(i, sys) => {
                if Some(i) == k {
                    res.shape = sys.shape.clone();
                    res.phase = PHASES.get(first.phase).unwrap_or(&"?").to_string();
                    res.ordinal = first.log.iter().filter(|x| x.shape == sys.shape).count();
                    paused_in_creation = first.phase == 1;
                    if let Some(e) = expect_shape {
                        // the length of the serialised static config varies by a byte between runs
                        if !same_call(e, &sys.shape) {
                            first.kill();
                            let _ = peer.cmd("QUIT", Duration::from_secs(5));
                            peer.finish();
                            remove_domain(&d);
                            return Err(format!("divergence: visible call {i} is {:?}, recorded run had {:?}", sys.shape, e));
                        }
                    }
                    match peer.cmd(&format!("OP {rop}"), timeout) {
                        Ok(l) => peer_result = Some(l.trim().to_string()),
                        Err(e) => res.problems.push(format!("c06-hang: the second party's {rop} did not return while the first party was stopped before its call: {e}")),
                    }
                }
            }
            Stop::Hold => {
                if k == Some(HOLD_POINT) {
                    // sequential: the second party acts while the first one holds its finished handle
                    res.shape = "(holding the handle)".into();
                    res.phase = "holding".into();
                    paused_in_creation = true;
                    match peer.cmd(&format!("OP {rop}"), timeout) {
                        Ok(l) => peer_result = Some(l.trim().to_string()),
                        Err(e) => res.problems.push(format!("c06-hang: the second party's {rop} did not return: {e}")),
                    }
                }
                match peer.cmd("REPORT", timeout) {
                    Ok(l) => report_hold = Some(l.trim().to_string()),
                    Err(e) => res.problems.push(format!("c06-hang: REPORT while the first party holds its handle: {e}")),
                }
            }
            Stop::Exited(code) => {
                exit_code = code;
                break;
            }
        }
    }
    let first_out = first.stdout();
    let first_result = first_out.lines().find_map(|l| l.strip_prefix("FIRST-RESULT ")).unwrap_or("").trim().to_string();
    if exit_code != 0 || first_result.is_empty() || first_result.starts_with("harness-error") {
        let _ = peer.cmd("QUIT", Duration::from_secs(5));
        peer.finish();
        remove_domain(&d);
        return Err(format!("first party failed outside the checked call: exit {exit_code}, output {first_out:?}"));
    }
    if k.is_some() && res.shape.is_empty() {
        let _ = peer.cmd("QUIT", Duration::from_secs(5));
        peer.finish();
        remove_domain(&d);
        return Err(format!("divergence: the first party exited before visible call {}", k.unwrap()));
    }
    if k.is_none() {
        // recording run: the second party acts after the first one has left
        match peer.cmd(&format!("OP {rop}"), timeout) {
            Ok(l) => peer_result = Some(l.trim().to_string()),
            Err(e) => res.problems.push(format!("c06-hang: the second party's {rop} did not return: {e}")),
        }
    }
    let report_after = peer.cmd("REPORT", timeout).map(|l| l.trim().to_string());
    let dropped = peer.cmd("DROP", timeout).map(|l| l.trim().to_string());
    let _ = peer.cmd("QUIT", Duration::from_millis(200));
    match peer.finish() {
        Some(0) => {}
        Some(c) => res.problems.push(format!("c06-second-party-crashed: exit code {c}")),
        None => res.problems.push("c06-hang: the second party did not exit".into()),
    }
    // ---- oracle
    let v_ok = first_result.starts_with("ok");
    let v_knob = field(&first_result, "knob=").map(|x| x.to_string());
    let r = peer_result.clone().unwrap_or_default();
    let r_line = r.strip_prefix("RESULT ").unwrap_or("").to_string();
    let r_ok = r_line.starts_with("ok");
    let r_knob = field(&r_line, "knob=").map(|x| x.to_string());
    if !v_ok {
        let e = first_result.strip_prefix("err ").unwrap_or(&first_result);
        if !documented_race_error(&vop, &s.pattern, e) {
            res.problems.push(format!("c06-undocumented-error: the first party's {vop} returned {e}"));
        }
    }
    if peer_result.is_some() && !r_ok {
        let e = r_line.strip_prefix("err ").unwrap_or(&r_line);
        if !documented_race_error(&rop, &s.pattern, e) {
            res.problems.push(format!("c06-undocumented-error: the second party's {rop} returned {e}"));
        }
    }
    if v_ok && r_ok {
        if paused_in_creation {
            // both handles were alive at the same time
            if vop == "create" && rop == "create" {
                res.problems.push("c06-two-creations: create succeeded in both processes".to_string());
            }
            if v_knob != r_knob {
                res.problems.push(format!("c06-settings-differ: the two users of one service see different settings ({v_knob:?} and {r_knob:?})"));
            }
        } else {
            // the first party was already leaving
            let want: &[&str] = match rop.as_str() {
                "create" => &["3"],
                "open" => &["2"],
                _ => &["2", "3"],
            };
            if !want.contains(&r_knob.as_deref().unwrap_or("")) {
                res.problems.push(format!("c06-settings: the second party's {rop} returned a service with knob {r_knob:?}"));
            }
        }
    }
    for (what, knob) in [("first", &v_knob), ("second", &r_knob)] {
        if let Some(kb) = knob {
            if kb != "2" && kb != "3" {
                res.problems.push(format!("c06-settings: the {what} party sees knob {kb}, which nobody asked for"));
            }
        }
    }
    if let Some(h) = &report_hold {
        let second_has_handle = r_ok && (paused_in_creation);
        if (v_ok || second_has_handle) && field(h, "exists=") != Some("true") {
            res.problems.push(format!("c06-vanished: a handle is alive but does_exist reports {:?}", field(h, "exists=")));
        }
        if second_has_handle {
            if field(h, "port=") != Some("ok") {
                res.problems.push(format!("c06-half-initialised: the second party's handle cannot create a port: {:?}", field(h, "port=")));
            }
            if field(h, "knob=").map(|x| x.to_string()) != r_knob {
                res.problems.push(format!("c06-settings: the second party's settings changed from {r_knob:?} to {:?}", field(h, "knob=")));
            }
        }
    }
    match &report_after {
        Ok(l) => {
            if r_ok {
                if field(l, "exists=") != Some("true") {
                    res.problems.push(format!("c06-premature-removal: the first party left, the second still holds a handle, does_exist reports {:?}", field(l, "exists=")));
                }
                if field(l, "port=") != Some("ok") {
                    res.problems.push(format!("c06-premature-removal: after the first party left the second party's handle cannot create a port: {:?}", field(l, "port=")));
                }
                if field(l, "knob=").map(|x| x.to_string()) != r_knob {
                    res.problems.push(format!("c06-settings: the second party's settings changed from {r_knob:?} to {:?}", field(l, "knob=")));
                }
            } else if field(l, "exists=") != Some("false") {
                res.problems.push(format!("c06-leftover: nobody holds a handle but does_exist reports {:?}", field(l, "exists=")));
            }
        }
        Err(e) => res.problems.push(format!("c06-hang: REPORT after the first party left: {e}")),
    }
    match &dropped {
        Ok(l) => {
            if field(l, "exists=") != Some("false") {
                res.problems.push(format!("c06-leftover: all handles are dropped but does_exist reports {:?}", field(l, "exists=")));
            }
        }
        Err(e) => res.problems.push(format!("c06-hang: drop of the second party's handle: {e}")),
    }
    res.notes.push(format!("first {vop}: {first_result}; second {rop}: {}", if r_line.is_empty() { "-" } else { &r_line }));
    res.probe = format!("first={} second={}", first_result.replace(' ', "_"), r_line.replace(' ', "_"));
    res.leftovers = leftovers(&d);
    if !res.leftovers.is_empty() {
        res.problems.push(format!("leftover: {}", res.leftovers.join(", ")));
    }
    remove_domain(&d);
    res.wall_ms = t0.elapsed().as_millis() as u64;
    Ok((res, first.log.clone()))
}

fn split_leg(label: &str) -> (String, Scenario) {
    let (leg, name) = match label.split_once('(') {
        Some((l, rest)) => (l.to_string(), rest.trim_end_matches(')').to_string()),
        None => ("kill".to_string(), label.to_string()),
    };
    let parts: Vec<&str> = name.split('-').collect();
    (leg, Scenario { pattern: parts[0].to_string(), role: parts[1].to_string(), mode: parts[2].to_string() })
}

fn rerun(label: &str, k: Option<usize>, prop: &str) -> Result<(PointResult, Vec<Sys>), String> {
    let (leg, scn) = split_leg(label);
    match leg.as_str() {
        "two-cleaners" => cleaner_point(&scn, k, false, None),
        "cleaner-dies" => cleaner_point(&scn, k, true, None),
        "atomic" => atomic_point(&scn, k.map(|k| k as u64)).map(|(r, _)| (r, Vec::new())),
        "race" => race_point(&scn, k, None),
        "cleaner-threads" => cleaner_threads_point(&scn, k, None),
        "refused-cleaner" => refused_cleaner_point(&scn),
        _ => run_point(&scn, k, None, prop),
    }
}

fn tag_of(problem: &str) -> String {
    problem.split(':').next().unwrap_or("").trim().to_string()
}

fn main() {
    let mut tier = std::env::var("VERIF_TIER").unwrap_or_else(|_| "quick".into());
    let mut out: Option<PathBuf> = None;
    let mut replays = PathBuf::from("/verif/replays");
    let mut prop = "C04".to_string();
    let mut jobs = std::thread::available_parallelism().map(|n| n.get()).unwrap_or(8);
    let mut replay: Option<PathBuf> = None;
    let mut only: Option<String> = None;
    let mut hold_lock: Option<PathBuf> = None;
    let a: Vec<String> = std::env::args().skip(1).collect();
    let mut i = 0;
    while i < a.len() {
        match a[i].as_str() {
            "--tier" => {
                tier = a[i + 1].clone();
                i += 1
            }
            "--out" => {
                out = Some(PathBuf::from(&a[i + 1]));
                i += 1
            }
            "--replays" => {
                replays = PathBuf::from(&a[i + 1]);
                i += 1
            }
            "--prop" => {
                prop = a[i + 1].clone();
                i += 1
            }
            "--jobs" => {
                jobs = a[i + 1].parse().unwrap();
                i += 1
            }
            "--replay" => {
                replay = Some(PathBuf::from(&a[i + 1]));
                i += 1
            }
            "--only" => {
                only = Some(a[i + 1].clone());
                i += 1
            }
            "--hold-lock" => {
                hold_lock = Some(PathBuf::from(&a[i + 1]));
                i += 1
            }
            "--known-file" => {
                // matching against known findings is done by /verif/check on the signatures
                i += 1
            }
            x => {
                eprintln!("PTX-MACHINERY-ERROR: unknown argument {x}");
                std::process::exit(2)
            }
        }
        i += 1;
    }
    let _ = std::fs::create_dir_all("/verif/.run/ptx");
    if let Some(f) = hold_lock {
        // helper process of the "refused cleaner" point: holds a read lock on the file until stdin closes
        use std::os::unix::io::AsRawFd;
        let file = match std::fs::OpenOptions::new().read(true).write(true).open(&f) {
            Ok(f) => f,
            Err(e) => {
                println!("HOLD-ERROR open {e}");
                std::process::exit(3);
            }
        };
        let mut fl: libc::flock = unsafe { std::mem::zeroed() };
        fl.l_type = libc::F_RDLCK as i16;
        fl.l_whence = libc::SEEK_SET as i16;
        let r = unsafe { libc::fcntl(file.as_raw_fd(), libc::F_SETLK, &fl) };
        if r != 0 {
            println!("HOLD-ERROR lock");
            std::process::exit(3);
        }
        println!("LOCKED");
        let _ = std::io::stdout().flush();
        let mut line = String::new();
        let _ = std::io::stdin().read_line(&mut line);
        std::process::exit(0);
    }
    if let Some(p) = replay {
        std::process::exit(replay_main(&p, &prop));
    }
    let t0 = Instant::now();
    let mut machinery: Vec<String> = Vec::new();
    let scns: Vec<Scenario> =
        if prop == "C06" { Vec::new() } else { scenarios(&tier, &prop).into_iter().filter(|s| only.as_ref().map(|o| s.name().contains(o.as_str())).unwrap_or(true)).collect() };
    // 1. recording runs (also the no-crash baseline: must be clean)
    let mut work: Vec<(Scenario, usize, String)> = Vec::new();
    let mut results: Vec<PointResult> = Vec::new();
    let mut rows: Vec<Value> = Vec::new();
    for s in &scns {
        match run_point(s, None, None, &prop) {
            Ok((r, log)) => {
                rows.push(json!({"scenario": s.name(), "visible_calls": log.len(), "baseline_problems": r.problems}));
                if !r.problems.is_empty() {
                    machinery.push(format!("baseline (no crash) of scenario {} is not clean: {:?}", s.name(), r.problems));
                }
                for (k, sys) in log.iter().enumerate() {
                    work.push((s.clone(), k, sys.shape.clone()));
                }
                results.push(r);
            }
            Err(e) => machinery.push(format!("recording run of {} failed: {e}", s.name())),
        }
    }
    // 1b. C07: cleaner leg (recording run of a lone cleaner = baseline, then every call of it)
    let mut cleaner_work: Vec<(Scenario, usize, String, bool)> = Vec::new();
    if prop == "C07" {
        let cs = Scenario { pattern: "pubsub".into(), role: "A".into(), mode: "shared".into() };
        let cs2 = Scenario { pattern: "reqres".into(), role: "B".into(), mode: "shared".into() };
        let cleaner_scns = if tier == "thorough" { vec![cs, cs2] } else { vec![cs] };
        for s in cleaner_scns {
            if only.as_ref().map(|o| !format!("cleaners-{}", s.name()).contains(o.as_str())).unwrap_or(false) {
                continue;
            }
            match cleaner_point(&s, None, false, None) {
                Ok((r, log)) => {
                    rows.push(json!({"scenario": format!("cleaners({})", s.name()), "visible_calls_of_a_cleaner": log.len(), "baseline_problems": r.problems}));
                    if !r.problems.is_empty() {
                        machinery.push(format!("baseline of the cleaner leg ({}) is not clean: {:?}", s.name(), r.problems));
                    }
                    for (k, sys) in log.iter().enumerate() {
                        cleaner_work.push((s.clone(), k, sys.shape.clone(), false));
                        cleaner_work.push((s.clone(), k, sys.shape.clone(), true));
                    }
                    results.push(r);
                }
                Err(e) => machinery.push(format!("recording run of the cleaner leg failed: {e}")),
            }
        }
    }
    // 1e. C07: cleaner leg, threads of one process
    let mut thread_work: Vec<(Scenario, usize, String)> = Vec::new();
    if prop == "C07" {
        let s = Scenario { pattern: "pubsub".into(), role: "A".into(), mode: "shared".into() };
        if only.as_ref().map(|o| format!("cleaner-threads({})", s.name()).contains(o.as_str())).unwrap_or(true) {
            match cleaner_threads_point(&s, None, None) {
                Ok((r, calls)) => {
                    rows.push(json!({"scenario": format!("cleaner-threads({})", s.name()), "intercepted_calls_of_thread_A": calls.len(), "baseline_problems": r.problems, "baseline": r.notes}));
                    if !r.problems.is_empty() {
                        machinery.push(format!("baseline (sequential) of the cleaner thread leg is not clean: {:?}", r.problems));
                    }
                    for (k, c) in calls.iter().enumerate() {
                        thread_work.push((s.clone(), k, c.shape.clone()));
                    }
                    results.push(r);
                }
                Err(e) => machinery.push(format!("recording run of the cleaner thread leg failed: {e}")),
            }
        }
    }
    if prop == "C07" {
        for s in [Scenario { pattern: "pubsub".into(), role: "A".into(), mode: "shared".into() }, Scenario { pattern: "reqres".into(), role: "B".into(), mode: "shared".into() }] {
            if only.as_ref().map(|o| format!("refused-cleaner({})", s.name()).contains(o.as_str())).unwrap_or(true) {
                match refused_cleaner_point(&s) {
                    Ok((r, _)) => {
                        rows.push(json!({"scenario": format!("refused-cleaner({})", s.name()), "notes": r.notes, "problems": r.problems}));
                        results.push(r);
                    }
                    Err(e) => machinery.push(format!("refused-cleaner point failed: {e}")),
                }
            }
        }
    }
    let thread_work = Arc::new(thread_work);
    // 1d. C06: process leg
    let mut race_work: Vec<(Scenario, usize, String)> = Vec::new();
    let mut race_outcomes: BTreeMap<String, usize> = BTreeMap::new();
    if prop == "C06" {
        for s in race_scenarios(&tier) {
            if only.as_ref().map(|o| !format!("race({})", s.name()).contains(o.as_str())).unwrap_or(false) {
                continue;
            }
            match race_point(&s, None, None) {
                Ok((r, log)) => {
                    rows.push(json!({"scenario": format!("race({})", s.name()), "visible_calls_of_the_first_party": log.len(), "baseline_problems": r.problems, "baseline": r.notes}));
                    if !r.problems.is_empty() {
                        machinery.push(format!("baseline (sequential) of race({}) is not clean: {:?}", s.name(), r.problems));
                    }
                    for (k, sys) in log.iter().enumerate() {
                        race_work.push((s.clone(), k, sys.shape.clone()));
                    }
                    race_work.push((s.clone(), HOLD_POINT, "(holding the handle)".to_string()));
                    results.push(r);
                }
                Err(e) => machinery.push(format!("recording run of race({}) failed: {e}", s.name())),
            }
        }
    }
    let race_work = Arc::new(race_work);
    // 1c. C04: atomic-operation kill points
    let mut atomic_work: Vec<(Scenario, u64)> = Vec::new();
    if prop == "C04" && mc_exe("crash_child_mc").exists() {
        let sc = |p: &str, r: &str| Scenario { pattern: p.to_string(), role: r.to_string(), mode: "shared".into() };
        let list = if tier == "thorough" {
            vec![sc("pubsub", "A"), sc("pubsub", "B"), sc("event", "A"), sc("event", "B"), sc("reqres", "A"), sc("reqres", "B"), sc("blackboard", "A"), sc("blackboard", "B")]
        } else if only.as_ref().map(|o| o.starts_with("atomic")).unwrap_or(false) {
            vec![sc("pubsub", "A")]
        } else {
            // the every-change tier leaves the atomic-operation kill points to the thorough tier
            vec![]
        };
        for s in list {
            if only.as_ref().map(|o| !format!("atomic-{}", s.name()).contains(o.as_str())).unwrap_or(false) {
                continue;
            }
            match atomic_point(&s, None) {
                Ok((r, total)) => {
                    rows.push(json!({"scenario": format!("atomic({})", s.name()), "atomic_operations": total, "baseline_problems": r.problems}));
                    if !r.problems.is_empty() {
                        machinery.push(format!("baseline of the atomic leg ({}) is not clean: {:?}", s.name(), r.problems));
                    }
                    for n in 0..total {
                        atomic_work.push((s.clone(), n));
                    }
                    results.push(r);
                }
                Err(e) => machinery.push(format!("counting run of the atomic leg failed: {e}")),
            }
        }
    }
    let atomic_work = Arc::new(atomic_work);
    let cleaner_work = Arc::new(cleaner_work);
    // 2. every kill point
    let next = Arc::new(AtomicUsize::new(0));
    let work = Arc::new(work);
    let collected: Arc<Mutex<Vec<Result<PointResult, String>>>> = Arc::new(Mutex::new(Vec::new()));
    let deadline = Instant::now() + Duration::from_secs(if tier == "thorough" { 1500 } else { 50 });
    let mut hs = Vec::new();
    for _ in 0..jobs {
        let (next, work, collected, prop, cleaner_work, atomic_work, race_work) = (next.clone(), work.clone(), collected.clone(), prop.clone(), cleaner_work.clone(), atomic_work.clone(), race_work.clone());
        let thread_work = thread_work.clone();
        hs.push(std::thread::spawn(move || loop {
            let i = next.fetch_add(1, Ordering::SeqCst);
            if i >= work.len() + cleaner_work.len() + atomic_work.len() + race_work.len() + thread_work.len() || Instant::now() > deadline {
                break;
            }
            let again = |i: usize| -> Result<PointResult, String> {
              if i >= work.len() + cleaner_work.len() + atomic_work.len() + race_work.len() {
                let (s, k, name) = &thread_work[i - work.len() - cleaner_work.len() - atomic_work.len() - race_work.len()];
                cleaner_threads_point(s, Some(*k), Some(name)).map(|(r, _)| r)
            } else if i >= work.len() + cleaner_work.len() + atomic_work.len() {
                let (s, k, shape) = &race_work[i - work.len() - cleaner_work.len() - atomic_work.len()];
                race_point(s, Some(*k), Some(shape)).map(|(r, _)| r)
            } else if i < work.len() {
                let (s, k, shape) = &work[i];
                run_point(s, Some(*k), Some(shape), &prop).map(|(r, _)| r)
            } else if i < work.len() + cleaner_work.len() {
                let (s, k, shape, kill) = &cleaner_work[i - work.len()];
                cleaner_point(s, Some(*k), *kill, Some(shape)).map(|(r, _)| r)
            } else {
                let (s, n) = &atomic_work[i - work.len() - cleaner_work.len()];
                atomic_point(s, Some(*n)).map(|(r, _)| r)
              }
            };
            let r = again(i);
            // a hang verdict rests on a timeout; on a loaded machine a slow run looks the same:
            // such a point is executed once more and the second execution counts
            let timed_out = |r: &Result<PointResult, String>| match r {
                Ok(p) => p.problems.iter().any(|x| x.contains("hang") || x.contains("timeout")),
                Err(e) => e.contains("timeout"),
            };
            let r = if timed_out(&r) { again(i) } else { r };
            collected.lock().unwrap().push(r);
        }));
    }
    for h in hs {
        let _ = h.join();
    }
    let done = collected.lock().unwrap().len();
    let complete = done == work.len() + cleaner_work.len() + atomic_work.len() + race_work.len() + thread_work.len();
    for r in collected.lock().unwrap().drain(..) {
        match r {
            Ok(r) => results.push(r),
            Err(e) => machinery.push(e),
        }
    }
    // 3. violations grouped by signature
    let mut by_sig: BTreeMap<String, Vec<&PointResult>> = BTreeMap::new();
    for r in &results {
        if prop == "C06" {
            *race_outcomes.entry(format!("{} {}", r.scenario, r.probe)).or_insert(0) += 1;
        }
        if r.problems.is_empty() {
            continue;
        }
        // one finding class = (pattern, phase in which the victim died, which oracles failed and how,
        // what was left behind); kill points of one class are witnesses of the same defect
        let mut ps: Vec<String> = r.problems.clone();
        ps.sort();
        ps.dedup();
        let sig = if prop == "C06" {
            format!("ptx|C06|{}|paused-in={}|{}", r.scenario, if r.k == usize::MAX { "sequential" } else { r.phase.as_str() }, ps.join(" ; "))
        } else {
            format!("ptx|{}|killed-in={}|{}", prop, if r.k == usize::MAX { "no-crash" } else { r.phase.as_str() }, ps.join(" ; "))
        };
        by_sig.entry(sig).or_default().push(r);
    }
    let mut violations: Vec<Value> = Vec::new();
    for (sig, rs) in &by_sig {
        let r = rs.iter().min_by_key(|r| (r.scenario.clone(), r.k)).unwrap();
        let dir = replays.join(&prop);
        let _ = std::fs::create_dir_all(&dir);
        let mut n = 0;
        let path = loop {
            let p = dir.join(format!("ptx_{n}.json"));
            if !p.exists() {
                break p;
            }
            n += 1;
        };
        let rf = json!({"engine": "ptx", "harness": "ptx", "property": prop, "scenario": r.scenario, "kill_before_visible_call": r.k,
            "call": r.shape, "ordinal_of_that_call_shape": r.ordinal, "victim_phase": r.phase, "problems": r.problems, "signature": sig,
            "witness_points": rs.iter().map(|r| format!("{}#{}", r.scenario, r.k)).collect::<Vec<_>>() });
        std::fs::write(&path, serde_json::to_vec_pretty(&rf).unwrap()).unwrap();
        // confirm: the same point must show the same problems again (2 of up to 3 re-runs)
        let mut ok = 0;
        for attempt in 0..3 {
            if ok == 2 || (attempt == 2 && ok == 0) {
                break;
            }
            let k = if r.k == usize::MAX { None } else { Some(r.k) };
            if let Ok((again, _)) = rerun(&r.scenario, k, &prop) {
                if !again.problems.is_empty() && again.problems.iter().all(|p| sig.contains(p.as_str())) {
                    ok += 1;
                }
            }
        }
        if ok >= 2 {
            violations.push(json!({"harness": "ptx", "case": format!("{} kill before visible call #{} {}", r.scenario, r.k, r.shape),
                "kind": tag_of(&r.problems[0]), "message": r.problems.join(" | "), "replay": path, "signature": sig, "witnesses": rs.len()}));
        } else {
            machinery.push(format!("violation {sig} at {}#{} did not reproduce ({ok} of 3 re-runs)", r.scenario, r.k));
        }
    }
    let points = results.len();
    let shapes: std::collections::BTreeSet<(String, String)> = results.iter().map(|r| (r.scenario.clone(), format!("{}#{}", r.shape, r.ordinal))).collect();
    let mid = results.len() / 2;
    let samples: Vec<Value> = [0usize, mid, results.len().saturating_sub(1)]
        .iter()
        .filter_map(|&i| results.get(i))
        .map(|r| json!({"scenario": r.scenario, "kill_before_visible_call": r.k, "call": r.shape, "probe_while_stopped": r.probe, "survivor_notes": r.notes, "problems": r.problems, "wall_ms": r.wall_ms}))
        .collect();
    let part = json!({
        "engine": "ptx", "harness": "ptx", "property": prop, "tier": tier,
        "rule": if prop == "C06" {
            "two processes, one service name (ipc variant: files + shared memory): the first (traced) performs create | open_or_create with settings A, holds the handle, drops it; one case = (pattern, its operation, operation of the second process: create | open | open_or_create with settings B, visible system call k of the first process' creation or drop): the first process is stopped at the entry of call k, the second runs its complete operation, the first is resumed - every single-preemption interleaving of the two calls at system-call granularity, plus the sequential baseline. Checked: at most one creation among overlapping users, equal settings among overlapping users, only documented errors, a handle can create a port, does_exist while a handle is alive / after the last one is gone, nothing left in the domain."
        } else {
            "one case = (scenario, visible system call k of the victim): the victim is run under ptrace to the entry of call k, probed while stopped, killed with SIGKILL there; then the survivor detects, cleans up, exercises its ports with a new peer and shuts down, and the domain is scanned for leftovers. Every visible call of every scenario is a kill point (plus the no-crash baseline). A case is distinct by (scenario, call shape, ordinal)."
        },
        "race_points_planned": race_work.len(),
        "cleaner_thread_points_planned": thread_work.len(),
        "distinct_outcomes": race_outcomes.len(),
        "outcomes": race_outcomes,
        "evaluations": points,
        "distinct_nontrivial": shapes.len(),
        "scenarios": rows,
        "exhaustive": complete && machinery.is_empty(),
        "kill_points_planned": work.len() + scns.len(), "cleaner_points_planned": cleaner_work.len(), "atomic_points_planned": atomic_work.len(),
        "samples": samples,
        "violations": violations,
        "machinery_errors": machinery,
        "wall_s": t0.elapsed().as_secs_f64(),
    });
    match &out {
        Some(o) => std::fs::write(o, serde_json::to_vec_pretty(&part).unwrap()).unwrap(),
        None => println!("{}", serde_json::to_string_pretty(&part).unwrap()),
    }
    for m in part["machinery_errors"].as_array().unwrap() {
        eprintln!("MACHINERY: {}", m.as_str().unwrap_or(""));
    }
    let code = if !part["violations"].as_array().unwrap().is_empty() {
        1
    } else if !part["machinery_errors"].as_array().unwrap().is_empty() {
        2
    } else {
        0
    };
    std::process::exit(code);
}

fn replay_main(p: &PathBuf, prop: &str) -> i32 {
    let v: Value = serde_json::from_slice(&std::fs::read(p).expect("replay file")).expect("json");
    let label = v["scenario"].as_str().expect("scenario").to_string();
    let k = v["kill_before_visible_call"].as_u64().map(|k| k as usize).filter(|k| *k != usize::MAX);
    match rerun(&label, k, prop) {
        Ok((r, log)) => {
            println!("scenario {label} – visible calls of the traced process up to the stop point:");
            for (i, s) in log.iter().enumerate() {
                println!("  #{i} {}", s.shape);
            }
            println!("probe while stopped: {}", r.probe);
            println!("survivor notes: {:?}", r.notes);
            println!("leftovers: {:?}", r.leftovers);
            if r.problems.is_empty() {
                println!("REPLAY-RESULT: no failure");
                0
            } else {
                println!("REPLAY-RESULT: failure {:?}", r.problems);
                1
            }
        }
        Err(e) => {
            eprintln!("PTX-MACHINERY-ERROR: {e}");
            2
        }
    }
}
