//! C07, thread leg of the cleanup exclusivity: TWO THREADS of one process clean up the same dead
//! node of a foreign, really killed process. Thread A is held before its k-th state-changing libc
//! call inside `try_remove_stale_resources()` until thread B has run its complete attempt; then A
//! continues. (POSIX record locks do not exclude threads of one process from each other, so this
//! exercises the process-local part of the exclusivity.) The libc calls are intercepted by
//! defining them in this executable (they precede libc's in symbol resolution); the real
//! functions are reached through dlsym(RTLD_NEXT).
//!
//! usage: cleaner_mt <pattern> <role> <mode> <root> <prefix> <service> <k | -1>
//! output: `CALL <i> <name>` per intercepted call of thread A, `A <result>`, `B <result>`,
//!         `MT-DONE calls=<n> remaining_dead=<d> alive=<a>`

#[path = "/verif/e2/scn.rs"]
mod scn;

use std::cell::Cell;
use std::sync::atomic::{AtomicBool, AtomicI64, AtomicU64, AtomicUsize, Ordering};
use std::sync::Mutex;

use iceoryx2::prelude::*;
use libc::{c_char, c_int, c_void, mode_t, off_t};

static K: AtomicI64 = AtomicI64::new(-1);
static COUNT: AtomicU64 = AtomicU64::new(0);
static A_ACTIVE: AtomicBool = AtomicBool::new(false);
static A_PAUSED: AtomicBool = AtomicBool::new(false);
static A_FINISHED: AtomicBool = AtomicBool::new(false);
static B_DONE: AtomicBool = AtomicBool::new(false);
static B_BLOCKED: AtomicBool = AtomicBool::new(false);
static LOG: Mutex<Vec<&'static str>> = Mutex::new(Vec::new());

thread_local! {
    static IS_A: Cell<bool> = const { Cell::new(false) };
    static IN_POINT: Cell<bool> = const { Cell::new(false) };
}

fn point(name: &'static str) {
    let is_a = IS_A.try_with(|a| a.get()).unwrap_or(false);
    if !is_a || !A_ACTIVE.load(Ordering::SeqCst) {
        return;
    }
    if IN_POINT.with(|p| p.replace(true)) {
        return;
    }
    let n = COUNT.fetch_add(1, Ordering::SeqCst);
    if let Ok(mut l) = LOG.lock() {
        l.push(name);
    }
    if n as i64 == K.load(Ordering::SeqCst) {
        A_PAUSED.store(true, Ordering::SeqCst);
        // B may be unable to finish while A is held here: A can be inside a critical section of a
        // process-local mutex that B needs (then this interleaving does not exist); A gives up
        // waiting after 400 ms and the run degenerates to "B continues once A has left the section"
        let t0 = std::time::Instant::now();
        while !B_DONE.load(Ordering::SeqCst) {
            if t0.elapsed() > std::time::Duration::from_millis(400) {
                B_BLOCKED.store(true, Ordering::SeqCst);
                break;
            }
            std::thread::sleep(std::time::Duration::from_micros(200));
        }
    }
    IN_POINT.with(|p| p.set(false));
}

macro_rules! real {
    ($name:literal, $ty:ty) => {{
        static PTR: AtomicUsize = AtomicUsize::new(0);
        let mut p = PTR.load(Ordering::Relaxed);
        if p == 0 {
            p = unsafe { libc::dlsym(libc::RTLD_NEXT, concat!($name, "\0").as_ptr() as *const c_char) } as usize;
            PTR.store(p, Ordering::Relaxed);
        }
        unsafe { core::mem::transmute::<usize, $ty>(p) }
    }};
}

#[no_mangle]
pub unsafe extern "C" fn open(path: *const c_char, flags: c_int, mode: mode_t) -> c_int {
    point("open");
    real!("open", unsafe extern "C" fn(*const c_char, c_int, mode_t) -> c_int)(path, flags, mode)
}
#[no_mangle]
pub unsafe extern "C" fn open64(path: *const c_char, flags: c_int, mode: mode_t) -> c_int {
    point("open");
    real!("open64", unsafe extern "C" fn(*const c_char, c_int, mode_t) -> c_int)(path, flags, mode)
}
#[no_mangle]
pub unsafe extern "C" fn openat(dirfd: c_int, path: *const c_char, flags: c_int, mode: mode_t) -> c_int {
    point("openat");
    real!("openat", unsafe extern "C" fn(c_int, *const c_char, c_int, mode_t) -> c_int)(dirfd, path, flags, mode)
}
#[no_mangle]
pub unsafe extern "C" fn openat64(dirfd: c_int, path: *const c_char, flags: c_int, mode: mode_t) -> c_int {
    point("openat");
    real!("openat64", unsafe extern "C" fn(c_int, *const c_char, c_int, mode_t) -> c_int)(dirfd, path, flags, mode)
}
#[no_mangle]
pub unsafe extern "C" fn shm_open(name: *const c_char, flags: c_int, mode: mode_t) -> c_int {
    point("shm_open");
    real!("shm_open", unsafe extern "C" fn(*const c_char, c_int, mode_t) -> c_int)(name, flags, mode)
}
#[no_mangle]
pub unsafe extern "C" fn shm_unlink(name: *const c_char) -> c_int {
    point("shm_unlink");
    real!("shm_unlink", unsafe extern "C" fn(*const c_char) -> c_int)(name)
}
#[no_mangle]
pub unsafe extern "C" fn unlink(path: *const c_char) -> c_int {
    point("unlink");
    real!("unlink", unsafe extern "C" fn(*const c_char) -> c_int)(path)
}
#[no_mangle]
pub unsafe extern "C" fn unlinkat(dirfd: c_int, path: *const c_char, flags: c_int) -> c_int {
    point("unlinkat");
    real!("unlinkat", unsafe extern "C" fn(c_int, *const c_char, c_int) -> c_int)(dirfd, path, flags)
}
#[no_mangle]
pub unsafe extern "C" fn remove(path: *const c_char) -> c_int {
    point("remove");
    real!("remove", unsafe extern "C" fn(*const c_char) -> c_int)(path)
}
#[no_mangle]
pub unsafe extern "C" fn rmdir(path: *const c_char) -> c_int {
    point("rmdir");
    real!("rmdir", unsafe extern "C" fn(*const c_char) -> c_int)(path)
}
#[no_mangle]
pub unsafe extern "C" fn mkdir(path: *const c_char, mode: mode_t) -> c_int {
    point("mkdir");
    real!("mkdir", unsafe extern "C" fn(*const c_char, mode_t) -> c_int)(path, mode)
}
#[no_mangle]
pub unsafe extern "C" fn rename(a: *const c_char, b: *const c_char) -> c_int {
    point("rename");
    real!("rename", unsafe extern "C" fn(*const c_char, *const c_char) -> c_int)(a, b)
}
#[no_mangle]
pub unsafe extern "C" fn fcntl(fd: c_int, cmd: c_int, arg: usize) -> c_int {
    if [libc::F_SETLK, libc::F_SETLKW, libc::F_GETLK, libc::F_OFD_SETLK, libc::F_OFD_SETLKW, libc::F_OFD_GETLK].contains(&cmd) {
        point("fcntl-lock");
    }
    real!("fcntl", unsafe extern "C" fn(c_int, c_int, usize) -> c_int)(fd, cmd, arg)
}
#[no_mangle]
pub unsafe extern "C" fn fcntl64(fd: c_int, cmd: c_int, arg: usize) -> c_int {
    if [libc::F_SETLK, libc::F_SETLKW, libc::F_GETLK, libc::F_OFD_SETLK, libc::F_OFD_SETLKW, libc::F_OFD_GETLK].contains(&cmd) {
        point("fcntl-lock");
    }
    real!("fcntl64", unsafe extern "C" fn(c_int, c_int, usize) -> c_int)(fd, cmd, arg)
}
#[no_mangle]
pub unsafe extern "C" fn flock(fd: c_int, op: c_int) -> c_int {
    point("flock");
    real!("flock", unsafe extern "C" fn(c_int, c_int) -> c_int)(fd, op)
}
#[no_mangle]
pub unsafe extern "C" fn close(fd: c_int) -> c_int {
    if fd > 2 {
        point("close");
    }
    real!("close", unsafe extern "C" fn(c_int) -> c_int)(fd)
}
#[no_mangle]
pub unsafe extern "C" fn ftruncate(fd: c_int, len: off_t) -> c_int {
    point("ftruncate");
    real!("ftruncate", unsafe extern "C" fn(c_int, off_t) -> c_int)(fd, len)
}
#[no_mangle]
pub unsafe extern "C" fn ftruncate64(fd: c_int, len: off_t) -> c_int {
    point("ftruncate");
    real!("ftruncate64", unsafe extern "C" fn(c_int, off_t) -> c_int)(fd, len)
}
#[no_mangle]
pub unsafe extern "C" fn fchmod(fd: c_int, mode: mode_t) -> c_int {
    point("fchmod");
    real!("fchmod", unsafe extern "C" fn(c_int, mode_t) -> c_int)(fd, mode)
}
#[no_mangle]
pub unsafe extern "C" fn munmap(addr: *mut c_void, len: usize) -> c_int {
    real!("munmap", unsafe extern "C" fn(*mut c_void, usize) -> c_int)(addr, len)
}

type Svc = scn::Svc;

fn clean(cfg: &Config, who: &str) -> String {
    let mut views = Vec::new();
    let listed = Node::<Svc>::list(cfg, |s| {
        if let NodeState::Dead(v) = s {
            views.push(v);
        }
        CallbackProgression::Continue
    });
    if let Err(e) = listed {
        return format!("{who} list-error {e:?}");
    }
    if views.is_empty() {
        return format!("{who} nothing-dead");
    }
    let mut out = Vec::new();
    for v in views {
        if who == "A" {
            A_ACTIVE.store(true, Ordering::SeqCst);
        }
        let r = v.try_remove_stale_resources();
        if who == "A" {
            A_ACTIVE.store(false, Ordering::SeqCst);
        }
        out.push(match r {
            Ok(()) => "ok".to_string(),
            Err(e) => format!("{e:?}"),
        });
    }
    format!("{who} {}", out.join(","))
}

fn main() {
    let a: Vec<String> = std::env::args().skip(1).collect();
    let env = scn::parse_env(&a);
    let k: i64 = a.get(6).and_then(|x| x.parse().ok()).unwrap_or(-1);
    K.store(k, Ordering::SeqCst);
    scn::drop_privileges();
    set_log_level(LogLevel::Fatal);
    let cfg = scn::config(&env);
    let cfg_a = cfg.clone();
    let cfg_b = cfg.clone();
    let ta = std::thread::spawn(move || {
        IS_A.with(|a| a.set(true));
        let r = clean(&cfg_a, "A");
        A_FINISHED.store(true, Ordering::SeqCst);
        r
    });
    let tb = std::thread::spawn(move || {
        // B acts while A is held at its stop point (or after A finished: sequential baseline)
        while !A_PAUSED.load(Ordering::SeqCst) && !A_FINISHED.load(Ordering::SeqCst) {
            std::thread::sleep(std::time::Duration::from_micros(200));
        }
        let r = clean(&cfg_b, "B");
        B_DONE.store(true, Ordering::SeqCst);
        r
    });
    let rb = tb.join().unwrap_or_else(|_| "B panicked".to_string());
    B_DONE.store(true, Ordering::SeqCst);
    let ra = ta.join().unwrap_or_else(|_| "A panicked".to_string());
    for (i, n) in LOG.lock().unwrap().iter().enumerate() {
        println!("CALL {i} {n}");
    }
    println!("{ra}");
    println!("{rb}");
    let (mut alive, mut dead) = (0, 0);
    let _ = Node::<Svc>::list(&cfg, |s| {
        match s {
            NodeState::Alive(_) => alive += 1,
            NodeState::Dead(_) => dead += 1,
            _ => {}
        }
        CallbackProgression::Continue
    });
    println!(
        "MT-DONE calls={} paused={} b_blocked_while_a_was_held={} remaining_dead={dead} alive={alive}",
        COUNT.load(Ordering::SeqCst),
        A_PAUSED.load(Ordering::SeqCst),
        B_BLOCKED.load(Ordering::SeqCst)
    );
}
