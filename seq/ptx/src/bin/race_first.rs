#[path = "/verif/e2/scn.rs"]
mod scn;

fn main() {
    // <pattern> <role> <mode> <root> <prefix> <service> <op>
    let a: Vec<String> = std::env::args().skip(1).collect();
    let env = scn::parse_env(&a);
    std::process::exit(scn::race_first_main(&env, &a[6]));
}
