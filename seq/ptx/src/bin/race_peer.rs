#[path = "/verif/e2/scn.rs"]
mod scn;

fn main() {
    let a: Vec<String> = std::env::args().skip(1).collect();
    let env = scn::parse_env(&a);
    std::process::exit(scn::race_peer_main(&env));
}
