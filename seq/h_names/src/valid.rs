//! C19 (a): semantic string types accept exactly what their documentation allows.
//!
//! The predicates below are written from the documentation (doc comments of the types, of
//! `iceoryx2_bb_container::string::String` – "NUL is not allowed anywhere", "only code points less
//! than 128 are supported" – and the invalid-character / invalid-content definitions next to each
//! `semantic_string!` invocation). They never call the validation functions of the repository.

use iceoryx2::node::node_name::NodeName;
use iceoryx2::service::service_name::ServiceName;
use iceoryx2_bb_container::semantic_string::SemanticString;
use iceoryx2_bb_system_types::base64url::Base64Url;
use iceoryx2_bb_system_types::file_name::{FileName, RestrictedFileName};
use iceoryx2_bb_system_types::file_path::FilePath;
use iceoryx2_bb_system_types::group_name::GroupName;
use iceoryx2_bb_system_types::path::Path;
use iceoryx2_bb_system_types::user_name::UserName;
use seqx::Fail;
use serde::{Deserialize, Serialize};

#[derive(Clone, Copy, Debug, Serialize, Deserialize, PartialEq, Eq, Hash)]
pub enum Ty {
    FileName,
    RestrictedFileName8,
    Path,
    FilePath,
    UserName,
    GroupName,
    Base64Url,
    ServiceName,
    NodeName,
}

pub const ALL_TYPES: [Ty; 9] =
    [Ty::FileName, Ty::RestrictedFileName8, Ty::Path, Ty::FilePath, Ty::UserName, Ty::GroupName, Ty::Base64Url, Ty::ServiceName, Ty::NodeName];

#[derive(Clone, Debug, Serialize, Deserialize)]
pub enum Part {
    /// every byte string of length 0, 1 and 2 over 0..=255
    Short,
    /// every byte string of length 3 whose first byte is in lo..hi, the other two over `alphabet`
    /// (None = 0..=255)
    Len3 { lo: u16, hi: u16, restricted: bool },
    /// every string over {'a', '/', '.', NUL} (+ one type specific byte) up to length 8
    Structured,
    /// strings of length max_len-1, max_len, max_len+1 with interesting bytes at interesting positions
    Boundary,
    /// every mutating operation with every argument on every accepted string of length <= 2 over
    /// the 12 byte alphabet
    Mutations,
    /// operations that derive one name from another (FilePath::file_name/path, Path::entries,
    /// FilePath::from_path_and_file, Path::add_path_entry)
    Derived,
}

#[derive(Clone, Debug, Serialize, Deserialize)]
pub struct VCfg {
    pub ty: Ty,
    pub part: Part,
}

pub struct VSys {
    cfg: VCfg,
    pub inputs: u64,
    pub accepted: u64,
    done: bool,
}

pub const ALPHA12: [u8; 12] = [0x00, b'/', b'.', b'a', b'A', b'0', b'-', b'_', b' ', b'~', 0x80, 0xFF];
/// 32 byte alphabet of the reduced length-3 sweep (quick tier)
pub const ALPHA32: [u8; 32] = [
    0x00, 0x01, 0x1F, b' ', b'"', b'*', b'-', b'.', b'/', b'0', b'9', b':', b'<', b'>', b'?', b'A', b'Z', b'\\', b'_', b'a', b'i', b'o', b'x', b'2', b'z', b'|', b'~',
    0x7F, 0x80, 0xC3, 0xA9, 0xFF,
];

// ------------------------------------------------------------------------------------------
// independent predicates

fn ascii_no_nul(b: &[u8]) -> bool {
    b.iter().all(|c| (1..=127).contains(c))
}

/// file_name.rs: NUL, '/', 1..=31, '\\', '<', '>', '"', '|', '?', '*' are invalid (':' only on Windows)
fn file_name_char(c: u8) -> bool {
    c > 31 && c < 128 && !matches!(c, b'/' | b'\\' | b'<' | b'>' | b'"' | b'|' | b'?' | b'*')
}

/// path.rs / file_path.rs: NUL, 1..=31, '<', '>', '"', '|', '?', '*' are invalid
fn path_char(c: u8) -> bool {
    c > 31 && c < 128 && !matches!(c, b'<' | b'>' | b'"' | b'|' | b'?' | b'*')
}

pub fn pred_file_name(b: &[u8], max: usize) -> bool {
    !b.is_empty() && b.len() <= max && b.iter().all(|c| file_name_char(*c)) && b != b"." && b != b".."
}

pub fn pred_path(b: &[u8]) -> bool {
    b.len() <= 255 && b.iter().all(|c| path_char(*c))
}

pub fn pred_file_path(b: &[u8]) -> bool {
    !b.is_empty()
        && b.len() <= 255
        && b.iter().all(|c| path_char(*c))
        && b != b"."
        && b != b".."
        && !b.ends_with(b"/")
        && !b.ends_with(b"/.")
        && !b.ends_with(b"/..")
}

/// user_name.rs / group_name.rs: [a-zA-Z0-9_-]+, not starting with '-' or a digit
fn pred_posix_name(b: &[u8], max: usize) -> bool {
    !b.is_empty() && b.len() <= max && b.iter().all(|c| c.is_ascii_alphanumeric() || *c == b'-' || *c == b'_') && !(b[0] == b'-' || b[0].is_ascii_digit())
}

/// base64url.rs: RFC 4648 §5 alphabet without padding, not empty
fn pred_base64url(b: &[u8]) -> bool {
    !b.is_empty() && b.len() <= 255 && b.iter().all(|c| c.is_ascii_alphanumeric() || *c == b'-' || *c == b'_')
}

/// service_name.rs: "not allowed to be empty nor be prefixed with iox2://", at most 255 bytes
fn pred_service_name(b: &[u8]) -> bool {
    !b.is_empty() && b.len() <= 255 && ascii_no_nul(b) && !b.starts_with(b"iox2://")
}

/// node_name.rs: a string of at most 128 bytes
fn pred_node_name(b: &[u8]) -> bool {
    b.len() <= 128 && ascii_no_nul(b)
}

pub fn pred(ty: Ty, b: &[u8]) -> bool {
    match ty {
        Ty::FileName => pred_file_name(b, 255),
        Ty::RestrictedFileName8 => pred_file_name(b, 8),
        Ty::Path => pred_path(b),
        Ty::FilePath => pred_file_path(b),
        Ty::UserName => pred_posix_name(b, UserName::max_len()),
        Ty::GroupName => pred_posix_name(b, GroupName::max_len()),
        Ty::Base64Url => pred_base64url(b),
        Ty::ServiceName => pred_service_name(b),
        Ty::NodeName => pred_node_name(b),
    }
}

pub fn max_len(ty: Ty) -> usize {
    match ty {
        Ty::FileName | Ty::Path | Ty::FilePath | Ty::Base64Url | Ty::ServiceName => 255,
        Ty::RestrictedFileName8 => 8,
        Ty::UserName => UserName::max_len(),
        Ty::GroupName => GroupName::max_len(),
        Ty::NodeName => 128,
    }
}

// ------------------------------------------------------------------------------------------
// the real types

#[derive(Debug, Clone, PartialEq, Eq)]
pub enum Mutation {
    Push(u8),
    PushBytes(Vec<u8>),
    Insert(usize, u8),
    InsertBytes(usize, Vec<u8>),
    Remove(usize),
    RemoveRange(usize, usize),
    Pop,
    /// retain(|c| c == byte): documented to REMOVE the bytes that satisfy the closure
    RetainRemoving(u8),
    StripPrefix(Vec<u8>),
    StripSuffix(Vec<u8>),
    Truncate(usize),
}

/// what the documentation says the string looks like after the edit (None: no edit takes place)
fn edited(base: &[u8], m: &Mutation) -> Option<Vec<u8>> {
    let mut v = base.to_vec();
    match m {
        Mutation::Push(b) => v.push(*b),
        Mutation::PushBytes(bs) => v.extend_from_slice(bs),
        Mutation::Insert(i, b) => v.insert(*i, *b),
        Mutation::InsertBytes(i, bs) => {
            let tail = v.split_off(*i);
            v.extend_from_slice(bs);
            v.extend_from_slice(&tail);
        }
        Mutation::Remove(i) => {
            v.remove(*i);
        }
        Mutation::RemoveRange(i, n) => {
            v.drain(*i..*i + *n);
        }
        Mutation::Pop => {
            v.pop()?;
        }
        Mutation::RetainRemoving(b) => v.retain(|c| c != b),
        Mutation::StripPrefix(p) => {
            if !v.starts_with(p) {
                return None;
            }
            v.drain(..p.len());
        }
        Mutation::StripSuffix(p) => {
            if !v.ends_with(p) {
                return None;
            }
            v.truncate(v.len() - p.len());
        }
        Mutation::Truncate(n) => v.truncate(*n),
    }
    Some(v)
}

pub enum MutOutcome {
    /// the operation reported success; `applied` is false when it reported "nothing to do"
    /// (pop on an empty string, strip_* without match)
    Ok { applied: bool },
    Err,
}

trait Subject: Sized {
    fn create(b: &[u8]) -> Option<Self>;
    fn bytes(&self) -> &[u8];
    fn shown(&self) -> String;
    fn into_string(&self) -> Option<String>;
    fn mutate(&mut self, _m: &Mutation) -> Option<MutOutcome> {
        None
    }
    /// the C string constructor (`SemanticString::from_c_str`) on a NUL-terminated copy of `b`;
    /// `None`: the type has none
    fn create_c(_b: &[u8]) -> Option<Option<Self>> {
        None
    }
}

macro_rules! sem_subject {
    ($t:ty) => {
        impl Subject for $t {
            fn create(b: &[u8]) -> Option<Self> {
                <$t>::new(b).ok()
            }
            fn create_c(b: &[u8]) -> Option<Option<Self>> {
                let mut z = b.to_vec();
                z.push(0);
                Some(unsafe { <$t>::from_c_str(z.as_ptr() as *const core::ffi::c_char) }.ok())
            }
            fn bytes(&self) -> &[u8] {
                self.as_bytes()
            }
            fn shown(&self) -> String {
                format!("{}", self)
            }
            fn into_string(&self) -> Option<String> {
                Some(String::from(self))
            }
            fn mutate(&mut self, m: &Mutation) -> Option<MutOutcome> {
                fn unit(r: Result<(), iceoryx2_bb_container::semantic_string::SemanticStringError>) -> MutOutcome {
                    match r {
                        Ok(()) => MutOutcome::Ok { applied: true },
                        Err(_) => MutOutcome::Err,
                    }
                }
                Some(match m {
                    Mutation::Push(b) => unit(self.push(*b)),
                    Mutation::PushBytes(bs) => unit(self.push_bytes(bs)),
                    Mutation::Insert(i, b) => unit(self.insert(*i, *b)),
                    Mutation::InsertBytes(i, bs) => unit(self.insert_bytes(*i, bs)),
                    Mutation::Remove(i) => match self.remove(*i) {
                        Ok(_) => MutOutcome::Ok { applied: true },
                        Err(_) => MutOutcome::Err,
                    },
                    Mutation::RemoveRange(i, n) => unit(self.remove_range(*i, *n)),
                    Mutation::Pop => match self.pop() {
                        Ok(v) => MutOutcome::Ok { applied: v.is_some() },
                        Err(_) => MutOutcome::Err,
                    },
                    Mutation::RetainRemoving(b) => unit(self.retain(|c| c == *b)),
                    Mutation::StripPrefix(p) => match self.strip_prefix(p) {
                        Ok(v) => MutOutcome::Ok { applied: v },
                        Err(_) => MutOutcome::Err,
                    },
                    Mutation::StripSuffix(p) => match self.strip_suffix(p) {
                        Ok(v) => MutOutcome::Ok { applied: v },
                        Err(_) => MutOutcome::Err,
                    },
                    Mutation::Truncate(n) => unit(self.truncate(*n)),
                })
            }
        }
    };
}

sem_subject!(FileName);
sem_subject!(Path);
sem_subject!(FilePath);
sem_subject!(UserName);
sem_subject!(GroupName);
sem_subject!(Base64Url);

type Rfn8 = RestrictedFileName<8>;
impl Subject for Rfn8 {
    fn create(b: &[u8]) -> Option<Self> {
        Rfn8::new(b).ok()
    }
    fn bytes(&self) -> &[u8] {
        self.as_bytes()
    }
    fn shown(&self) -> String {
        format!("{}", self)
    }
    fn into_string(&self) -> Option<String> {
        None
    }
    fn mutate(&mut self, m: &Mutation) -> Option<MutOutcome> {
        let unit = |r: Result<(), iceoryx2_bb_container::semantic_string::SemanticStringError>| match r {
            Ok(()) => MutOutcome::Ok { applied: true },
            Err(_) => MutOutcome::Err,
        };
        Some(match m {
            Mutation::Push(b) => unit(self.push(*b)),
            Mutation::PushBytes(bs) => unit(self.push_bytes(bs)),
            Mutation::Insert(i, b) => unit(self.insert(*i, *b)),
            Mutation::InsertBytes(i, bs) => unit(self.insert_bytes(*i, bs)),
            Mutation::Remove(i) => match self.remove(*i) {
                Ok(_) => MutOutcome::Ok { applied: true },
                Err(_) => MutOutcome::Err,
            },
            Mutation::RemoveRange(i, n) => unit(self.remove_range(*i, *n)),
            Mutation::Pop => match self.pop() {
                Ok(v) => MutOutcome::Ok { applied: v.is_some() },
                Err(_) => MutOutcome::Err,
            },
            Mutation::RetainRemoving(b) => unit(self.retain(|c| c == *b)),
            Mutation::StripPrefix(p) => match self.strip_prefix(p) {
                Ok(v) => MutOutcome::Ok { applied: v },
                Err(_) => MutOutcome::Err,
            },
            Mutation::StripSuffix(p) => match self.strip_suffix(p) {
                Ok(v) => MutOutcome::Ok { applied: v },
                Err(_) => MutOutcome::Err,
            },
            Mutation::Truncate(n) => unit(self.truncate(*n)),
        })
    }
}

impl Subject for ServiceName {
    fn create(b: &[u8]) -> Option<Self> {
        ServiceName::new(std::str::from_utf8(b).ok()?).ok()
    }
    fn bytes(&self) -> &[u8] {
        self.as_str().as_bytes()
    }
    fn shown(&self) -> String {
        format!("{}", self)
    }
    fn into_string(&self) -> Option<String> {
        None
    }
}

impl Subject for NodeName {
    fn create(b: &[u8]) -> Option<Self> {
        NodeName::new(std::str::from_utf8(b).ok()?).ok()
    }
    fn bytes(&self) -> &[u8] {
        self.as_str().as_bytes()
    }
    fn shown(&self) -> String {
        format!("{}", self)
    }
    fn into_string(&self) -> Option<String> {
        None
    }
}

fn esc(b: &[u8]) -> String {
    let shown: Vec<u8> = if b.len() > 24 { [&b[..10], b"...", &b[b.len() - 10..]].concat() } else { b.to_vec() };
    format!("b\"{}\" (len {})", shown.escape_ascii(), b.len())
}

/// stable description of the input class for the `site` of a finding
fn class_of(b: &[u8]) -> &'static str {
    if b.is_empty() {
        "empty string"
    } else if b.contains(&0) {
        "string with NUL"
    } else if b.iter().any(|c| *c >= 128) {
        "string with byte >= 128"
    } else if b == b"." || b == b".." {
        "dot / dotdot"
    } else if b.ends_with(b"/") || b.ends_with(b"/.") || b.ends_with(b"/..") {
        "string ending in / or /. or /.."
    } else if b.contains(&b'/') {
        "string with path separator"
    } else if b.contains(&b'\\') {
        "string with backslash"
    } else if b.iter().any(|c| *c < 32) {
        "string with control character"
    } else if b.len() > 200 {
        "string at the length limit"
    } else {
        "plain string"
    }
}

fn check_new<T: Subject>(ty: Ty, b: &[u8], utf8_only: bool, sys: &mut VSys) -> Result<(), Fail> {
    if utf8_only && std::str::from_utf8(b).is_err() {
        // the constructor takes a &str: not expressible
        return Ok(());
    }
    sys.inputs += 1;
    let expected = pred(ty, b);
    let real = T::create(b);
    if real.is_some() != expected {
        return Err(Fail::new(
            if expected { "valid-name-rejected" } else { "invalid-name-accepted" },
            format!("{ty:?}::new {}", class_of(b)),
            format!("{ty:?}::new({}) was {}, the documented rules say {}", esc(b), if real.is_some() { "accepted" } else { "rejected" }, if expected { "valid" } else { "invalid" }),
        ));
    }
    // the C string constructor sees the same bytes (when they contain no NUL) and must agree
    if !b.contains(&0) {
        if let Some(c) = T::create_c(b) {
            if c.is_some() != expected {
                return Err(Fail::new(
                    if expected { "valid-name-rejected" } else { "invalid-name-accepted" },
                    format!("{ty:?}::from_c_str {}", class_of(b)),
                    format!("{ty:?}::from_c_str({}) was {}, the documented rules say {}", esc(b), if c.is_some() { "accepted" } else { "rejected" }, if expected { "valid" } else { "invalid" }),
                ));
            }
            if let Some(c) = c {
                if c.bytes() != b {
                    return Err(Fail::new("round-trip", format!("{ty:?}::from_c_str as_bytes {}", class_of(b)), format!("{ty:?}::from_c_str({}) stores {}", esc(b), esc(c.bytes()))));
                }
            }
        }
    }
    if let Some(v) = real {
        sys.accepted += 1;
        if v.bytes() != b {
            return Err(Fail::new("round-trip", format!("{ty:?}::new as_bytes {}", class_of(b)), format!("{ty:?}::new({}) stores {}", esc(b), esc(v.bytes()))));
        }
        // accepted names are ASCII, so the byte string is the text
        let text = String::from_utf8_lossy(b);
        // Display of the underlying string escapes non-printable characters; only printable text is
        // documented (by the examples) to be shown verbatim
        let printable = b.iter().all(|c| (32..=126).contains(c));
        let shown = v.shown();
        if printable && shown != text {
            return Err(Fail::new("round-trip", format!("{ty:?} Display {}", class_of(b)), format!("{ty:?}::new({}) displays as {:?}", esc(b), shown)));
        }
        if let Some(s) = v.into_string() {
            if s != text {
                return Err(Fail::new("round-trip", format!("{ty:?} Into<String> {}", class_of(b)), format!("{ty:?}::new({}) converts into {:?}", esc(b), s)));
            }
        }
        if matches!(ty, Ty::FileName | Ty::RestrictedFileName8) {
            // safety corollary, stated directly on the accepted value
            let bad = b.is_empty() || b.contains(&b'/') || b.contains(&0) || b == b"." || b == b"..";
            if bad {
                return Err(Fail::new("file-name-escapes-root", format!("{ty:?}::new {}", class_of(b)), format!("accepted file name {} can denote a location outside of its directory", esc(b))));
            }
        }
    }
    Ok(())
}

fn check_new_ty(ty: Ty, b: &[u8], sys: &mut VSys) -> Result<(), Fail> {
    match ty {
        Ty::FileName => check_new::<FileName>(ty, b, false, sys),
        Ty::RestrictedFileName8 => check_new::<Rfn8>(ty, b, false, sys),
        Ty::Path => check_new::<Path>(ty, b, false, sys),
        Ty::FilePath => check_new::<FilePath>(ty, b, false, sys),
        Ty::UserName => check_new::<UserName>(ty, b, false, sys),
        Ty::GroupName => check_new::<GroupName>(ty, b, false, sys),
        Ty::Base64Url => check_new::<Base64Url>(ty, b, false, sys),
        Ty::ServiceName => check_new::<ServiceName>(ty, b, true, sys),
        Ty::NodeName => check_new::<NodeName>(ty, b, true, sys),
    }
}

fn mutation_name(m: &Mutation) -> &'static str {
    match m {
        Mutation::Push(_) => "push",
        Mutation::PushBytes(_) => "push_bytes",
        Mutation::Insert(..) => "insert",
        Mutation::InsertBytes(..) => "insert_bytes",
        Mutation::Remove(_) => "remove",
        Mutation::RemoveRange(..) => "remove_range",
        Mutation::Pop => "pop",
        Mutation::RetainRemoving(_) => "retain",
        Mutation::StripPrefix(_) => "strip_prefix",
        Mutation::StripSuffix(_) => "strip_suffix",
        Mutation::Truncate(_) => "truncate",
    }
}

fn check_mutation<T: Subject>(ty: Ty, base: &[u8], m: &Mutation, sys: &mut VSys) -> Result<(), Fail> {
    let Some(mut v) = T::create(base) else {
        return Ok(());
    };
    sys.inputs += 1;
    let target = edited(base, m);
    let Some(out) = v.mutate(m) else {
        return Ok(());
    };
    let after = v.bytes().to_vec();
    let site = |what: &str, t: &[u8]| format!("{ty:?}::{} {what} {}", mutation_name(m), class_of(t));
    match (&target, out) {
        (None, MutOutcome::Ok { applied: false }) => {
            if after != base {
                return Err(Fail::new("mutation-changed-value", site("no-op on", base), format!("{m:?} on {} reported that nothing was done but the value is now {}", esc(base), esc(&after))));
            }
        }
        (None, MutOutcome::Ok { applied: true }) | (None, MutOutcome::Err) => {
            // pop on empty / strip without a match: documented to return None / false
            return Err(Fail::new("mutation-result", site("no-op on", base), format!("{m:?} on {} has nothing to do but did not report so (value now {})", esc(base), esc(&after))));
        }
        (Some(t), out) => {
            let valid = pred(ty, t);
            match out {
                MutOutcome::Ok { applied } => {
                    if !valid {
                        return Err(Fail::new(
                            "invalid-name-accepted",
                            site("producing", t),
                            format!("{m:?} on {} succeeded and yields {} although the edited string {} violates the documented rules", esc(base), esc(&after), esc(t)),
                        ));
                    }
                    if !applied || &after != t {
                        return Err(Fail::new("mutation-result", site("producing", t), format!("{m:?} on {} succeeded (applied: {applied}) but the value is {} instead of {}", esc(base), esc(&after), esc(t))));
                    }
                    sys.accepted += 1;
                }
                MutOutcome::Err => {
                    if valid {
                        return Err(Fail::new(
                            "valid-name-rejected",
                            site("producing", t),
                            format!("{m:?} on {} failed although the edited string {} satisfies the documented rules", esc(base), esc(t)),
                        ));
                    }
                    if after != base {
                        return Err(Fail::new(
                            "rejected-edit-changed-value",
                            site("producing", t),
                            format!("{m:?} on {} was rejected but left the value {} behind", esc(base), esc(&after)),
                        ));
                    }
                    // a rejected edit must leave a value that is still valid and usable
                    if !pred(ty, &after) {
                        return Err(Fail::new("rejected-edit-changed-value", site("producing", t), format!("value {} after a rejected edit is invalid", esc(&after))));
                    }
                }
            }
        }
    }
    Ok(())
}

fn check_mutation_ty(ty: Ty, base: &[u8], m: &Mutation, sys: &mut VSys) -> Result<(), Fail> {
    match ty {
        Ty::FileName => check_mutation::<FileName>(ty, base, m, sys),
        Ty::RestrictedFileName8 => check_mutation::<Rfn8>(ty, base, m, sys),
        Ty::Path => check_mutation::<Path>(ty, base, m, sys),
        Ty::FilePath => check_mutation::<FilePath>(ty, base, m, sys),
        Ty::UserName => check_mutation::<UserName>(ty, base, m, sys),
        Ty::GroupName => check_mutation::<GroupName>(ty, base, m, sys),
        Ty::Base64Url => check_mutation::<Base64Url>(ty, base, m, sys),
        Ty::ServiceName | Ty::NodeName => Ok(()),
    }
}

fn strings_over(alphabet: &[u8], max_len: usize, f: &mut dyn FnMut(&[u8]) -> Result<(), Fail>) -> Result<(), Fail> {
    let mut idx: Vec<usize> = Vec::new();
    let mut buf: Vec<u8> = Vec::new();
    loop {
        f(&buf)?;
        // next string in length-then-lexicographic order
        let mut i = idx.len();
        loop {
            if i == 0 {
                if idx.len() == max_len {
                    return Ok(());
                }
                idx = vec![0; idx.len() + 1];
                break;
            }
            i -= 1;
            if idx[i] + 1 < alphabet.len() {
                idx[i] += 1;
                for j in i + 1..idx.len() {
                    idx[j] = 0;
                }
                break;
            }
        }
        buf.clear();
        buf.extend(idx.iter().map(|k| alphabet[*k]));
    }
}

fn all_mutations(base: &[u8]) -> Vec<Mutation> {
    let mut ms = Vec::new();
    let n = base.len();
    let mut chunks: Vec<Vec<u8>> = Vec::new();
    strings_over(&ALPHA12, 2, &mut |s| {
        if !s.is_empty() {
            chunks.push(s.to_vec());
        }
        Ok(())
    })
    .unwrap();
    for b in 0..=255u8 {
        ms.push(Mutation::Push(b));
        for i in 0..=n {
            ms.push(Mutation::Insert(i, b));
        }
    }
    for c in &chunks {
        ms.push(Mutation::PushBytes(c.clone()));
        for i in 0..=n {
            ms.push(Mutation::InsertBytes(i, c.clone()));
        }
        ms.push(Mutation::StripPrefix(c.clone()));
        ms.push(Mutation::StripSuffix(c.clone()));
    }
    for i in 0..n {
        ms.push(Mutation::Remove(i));
        for l in 0..=n - i {
            ms.push(Mutation::RemoveRange(i, l));
        }
    }
    ms.push(Mutation::RemoveRange(n, 0));
    ms.push(Mutation::Pop);
    for b in ALPHA12 {
        ms.push(Mutation::RetainRemoving(b));
    }
    for l in 0..=n {
        ms.push(Mutation::Truncate(l));
    }
    ms
}

fn boundary_inputs(ty: Ty) -> Vec<Vec<u8>> {
    let max = max_len(ty);
    let mut v = Vec::new();
    for len in [max - 1, max, max + 1, max + 2] {
        let plain = vec![b'a'; len];
        v.push(plain.clone());
        for pos in [0, 1, len / 2, len - 2, len - 1] {
            for byte in [b'/', b'.', 0u8, 0x80, b'-', b'0', b' ', b'\\', b':'] {
                let mut s = plain.clone();
                s[pos] = byte;
                v.push(s);
            }
        }
        for tail in [&b"/."[..], b"/..", b"..", b"/", b"./", b"/a"] {
            let mut s = plain.clone();
            let n = s.len();
            s[n - tail.len()..].copy_from_slice(tail);
            v.push(s);
        }
        let mut s = b"iox2://".to_vec();
        s.resize(len, b'x');
        v.push(s);
        v.push(vec![b'.'; len]);
        v.push(vec![b'/'; len]);
    }
    v
}

fn derived_checks(sys: &mut VSys) -> Result<(), Fail> {
    // FilePath::file_name() / path() and Path::entries(): the parts of an accepted path are handed out as
    // FileName / Path values, which therefore have to satisfy the rules of those types
    let mut inputs: Vec<Vec<u8>> = Vec::new();
    let alphabet = [b'a', b'/', b'.', b'\\', b' ', b':'];
    strings_over(&alphabet, 5, &mut |s| {
        inputs.push(s.to_vec());
        Ok(())
    })?;
    for b in &inputs {
        if let Ok(fp) = FilePath::new(b) {
            sys.inputs += 1;
            let name = fp.file_name();
            let expected_name: &[u8] = b.rsplit(|c| *c == b'/').next().unwrap();
            if name.as_bytes() != expected_name {
                return Err(Fail::new("derived-name", "FilePath::file_name".to_string(), format!("FilePath {} has file_name {}", esc(b), esc(name.as_bytes()))));
            }
            // safety corollary (FileName "a\\b" from FilePath "a\\b" is tolerated: no traversal possible)
            let n = name.as_bytes();
            if n.is_empty() || n.contains(&b'/') || n.contains(&0) || n == b"." || n == b".." {
                return Err(Fail::new(
                    "file-name-escapes-root",
                    format!("FilePath::file_name last component {}", class_of(n)),
                    format!("FilePath::new({}) is accepted, its file_name() is {} which can denote a location outside of its directory", esc(b), esc(n)),
                ));
            }
            let dir = fp.path();
            if !pred_path(dir.as_bytes()) {
                return Err(Fail::new("derived-path-invalid", "FilePath::path".to_string(), format!("FilePath {} has path {}", esc(b), esc(dir.as_bytes()))));
            }
            sys.accepted += 1;
        }
        if let Ok(p) = Path::new(b) {
            sys.inputs += 1;
            let want: Vec<&[u8]> = b.split(|c| *c == b'/').filter(|e| !e.is_empty()).collect();
            let got = p.entries();
            if got.len() != want.len() || got.iter().zip(want.iter()).any(|(g, w)| g.as_bytes() != *w) {
                return Err(Fail::new("derived-name", "Path::entries".to_string(), format!("Path {} has entries {:?}", esc(b), got.iter().map(|g| esc(g.as_bytes())).collect::<Vec<_>>())));
            }
            // ("." and ".." are legitimate directory entries of a path, handed out for directory creation)
            for e in &got {
                if e.as_bytes().is_empty() || e.as_bytes().contains(&b'/') || e.as_bytes().contains(&0) {
                    return Err(Fail::new("derived-name", "Path::entries".to_string(), format!("Path {} has the entry {}", esc(b), esc(e.as_bytes()))));
                }
            }
        }
    }
    // FilePath::from_path_and_file and Path::add_path_entry at and around the length limit
    let mut boundary_panic: Option<Fail> = None;
    for plen in [0usize, 1, 2, 100, 200, 252, 253, 254, 255] {
        for slash in [false, true] {
            if slash && plen == 0 {
                continue;
            }
            let mut p = vec![b'p'; plen];
            if slash {
                p[plen - 1] = b'/';
            }
            let Ok(path) = Path::new(&p) else { continue };
            for flen in [1usize, 2, 3, 54, 55, 56, 154, 155, 156, 253, 254, 255] {
                let f = vec![b'f'; flen];
                let file = FileName::new(&f).map_err(|e| Fail::new("valid-name-rejected", "FileName::new plain string".to_string(), format!("{e:?}")))?;
                sys.inputs += 1;
                let mut want = p.clone();
                if !p.is_empty() && !slash {
                    want.push(b'/');
                }
                want.extend_from_slice(&f);
                let r = std::panic::catch_unwind(|| FilePath::from_path_and_file(&path, &file));
                match r {
                    Err(_) => {
                        // remember the first one and keep checking the remaining combinations
                        if boundary_panic.is_none() {
                            boundary_panic = Some(Fail::new(
                                "from-path-and-file-panics",
                                "FilePath::from_path_and_file result at the length limit".to_string(),
                                format!("from_path_and_file(path of {plen} bytes{}, file of {flen} bytes) = {} bytes (limit 255) panicked (debug assertion in from_path_and_file_unchecked) instead of returning the path or ExceedsMaximumLength", if slash { " ending in /" } else { "" }, want.len()),
                            ));
                        }
                    }
                    Ok(Ok(fp)) => {
                        if want.len() > 255 || fp.as_bytes() != &want[..] || !pred_file_path(&want) {
                            return Err(Fail::new("invalid-name-accepted", "FilePath::from_path_and_file".to_string(), format!("path {} + file {} gives {}", esc(&p), esc(&f), esc(fp.as_bytes()))));
                        }
                        sys.accepted += 1;
                    }
                    Ok(Err(_)) => {
                        if want.len() <= 255 {
                            return Err(Fail::new("valid-name-rejected", "FilePath::from_path_and_file".to_string(), format!("path {} + file {} ({} bytes) rejected", esc(&p), esc(&f), want.len())));
                        }
                    }
                }
                // Path::add_path_entry
                sys.inputs += 1;
                let mut base = path;
                let entry = Path::new(&f).map_err(|e| Fail::new("valid-name-rejected", "Path::new plain string".to_string(), format!("{e:?}")))?;
                match base.add_path_entry(&entry) {
                    Ok(()) => {
                        if want.len() > 255 || base.as_bytes() != &want[..] {
                            return Err(Fail::new("invalid-name-accepted", "Path::add_path_entry".to_string(), format!("path {} + entry {} gives {}", esc(&p), esc(&f), esc(base.as_bytes()))));
                        }
                    }
                    Err(_) => {
                        if want.len() <= 255 {
                            return Err(Fail::new("valid-name-rejected", "Path::add_path_entry".to_string(), format!("path {} + entry {} ({} bytes) rejected", esc(&p), esc(&f), want.len())));
                        }
                        if !pred_path(base.as_bytes()) {
                            return Err(Fail::new("rejected-edit-changed-value", "Path::add_path_entry".to_string(), format!("left {}", esc(base.as_bytes()))));
                        }
                    }
                }
            }
        }
    }
    match boundary_panic {
        Some(f) => Err(f),
        None => Ok(()),
    }
}

pub fn new_sys(cfg: &VCfg) -> VSys {
    VSys { cfg: cfg.clone(), inputs: 0, accepted: 0, done: false }
}

pub fn is_done(s: &VSys) -> bool {
    s.done
}

pub fn check_chunk(sys: &mut VSys) -> Result<(), Fail> {
    let ty = sys.cfg.ty;
    sys.done = true;
    let part = sys.cfg.part.clone();
    match part {
        Part::Short => {
            check_new_ty(ty, &[], sys)?;
            for a in 0..=255u8 {
                check_new_ty(ty, &[a], sys)?;
                for b in 0..=255u8 {
                    check_new_ty(ty, &[a, b], sys)?;
                }
            }
        }
        Part::Len3 { lo, hi, restricted } => {
            let full: Vec<u8> = (0..=255u8).collect();
            let alphabet: &[u8] = if restricted { &ALPHA32 } else { &full };
            for a in lo..hi {
                let a = a as u8;
                if restricted && !ALPHA32.contains(&a) {
                    continue;
                }
                for &b in alphabet {
                    for &c in alphabet {
                        check_new_ty(ty, &[a, b, c], sys)?;
                    }
                }
            }
        }
        Part::Structured => {
            let extra = match ty {
                Ty::ServiceName => b':',
                Ty::UserName | Ty::GroupName | Ty::Base64Url => b'-',
                _ => b'\\',
            };
            let alphabet = [b'a', b'/', b'.', 0u8, extra];
            let mut f = |s: &[u8]| check_new_ty(ty, s, sys);
            strings_over(&alphabet, 8, &mut f)?;
            if ty == Ty::ServiceName {
                // the reserved prefix and its neighbourhood
                let mut f = |s: &[u8]| {
                    let mut v = b"iox2:/".to_vec();
                    v.extend_from_slice(s);
                    check_new_ty(ty, &v, sys)
                };
                strings_over(&[b'/', b':', b'a', b'i'], 4, &mut f)?;
                for s in [&b"iox2://"[..], b"iox2:/", b"Iox2://a", b" iox2://a", b"iox2://a", b"iox2:///", b"aiox2://", b"iox3://a"] {
                    check_new_ty(ty, s, sys)?;
                }
            }
        }
        Part::Boundary => {
            for b in boundary_inputs(ty) {
                check_new_ty(ty, &b, sys)?;
            }
            // mutations that cross the length limit: fill up to max-1 / max and push / insert
            let max = max_len(ty);
            for len in [max - 1, max] {
                let base = vec![b'a'; len];
                let mut ms = vec![Mutation::Push(b'b'), Mutation::PushBytes(b"b".to_vec()), Mutation::PushBytes(b"bc".to_vec()), Mutation::Insert(0, b'b'), Mutation::InsertBytes(len / 2, b"bc".to_vec()), Mutation::Pop, Mutation::Truncate(len - 1), Mutation::Remove(0)];
                ms.push(Mutation::Push(b'/'));
                ms.push(Mutation::Push(0));
                for m in ms {
                    check_mutation_ty(ty, &base, &m, sys)?;
                }
            }
        }
        Part::Mutations => {
            let mut bases: Vec<Vec<u8>> = Vec::new();
            strings_over(&ALPHA12, 2, &mut |s| {
                if pred(ty, s) {
                    bases.push(s.to_vec());
                }
                Ok(())
            })?;
            for base in &bases {
                for m in all_mutations(base) {
                    check_mutation_ty(ty, base, &m, sys)?;
                }
            }
        }
        Part::Derived => derived_checks(sys)?,
    }
    Ok(())
}
