//! h_names – property C19: names are accepted exactly when they satisfy the documented rules and
//! round-trip unchanged (a), and applications configured with different prefixes / root paths are
//! isolated from each other (b).

mod iso;
mod valid;

use std::path::PathBuf;
use std::sync::atomic::{AtomicU64, Ordering};

use seqx::{Fail, Harness, Plan, Tier};
use serde::{Deserialize, Serialize};

#[derive(Clone, Debug, Serialize, Deserialize)]
enum Cfg {
    Val(valid::VCfg),
    Iso(iso::ICfg),
}

#[derive(Clone, Debug, Serialize, Deserialize)]
enum Op {
    /// check every input of the chunk that the configuration describes
    CheckChunk,
    Iso(iso::IOp),
}

enum Sys {
    Val(Box<valid::VSys>),
    Iso(Box<iso::ISys>),
}

struct H;

static FILE_COUNTER: AtomicU64 = AtomicU64::new(0);

fn is_parent_run() -> bool {
    !std::env::args().any(|a| matches!(a.as_str(), "--job" | "--list" | "--replay" | "--decode" | "--dead-child"))
}

fn counts_dir(pid: u32) -> PathBuf {
    PathBuf::from(format!("/verif/.run/h_names-counts-{pid}"))
}

fn validation_configs(tier: Tier) -> Vec<(Cfg, Plan)> {
    use valid::{Part, Ty, VCfg, ALL_TYPES};
    let quick = tier == Tier::Quick;
    let mut v = Vec::new();
    let mut push = |ty: Ty, part: Part| v.push((Cfg::Val(VCfg { ty, part }), Plan::tree(1)));
    for ty in ALL_TYPES {
        // the full length-3 sweep (16.7 M inputs per type) in chunks by first byte; the quick tier does it
        // for the three file system types and sweeps a 32 byte alphabet for the others
        if quick && !matches!(ty, Ty::FileName | Ty::Path | Ty::FilePath) {
            push(ty, Part::Len3 { lo: 0, hi: 256, restricted: true });
            continue;
        }
        let chunks = if quick { 4 } else { 8 };
        let step = 256 / chunks;
        for k in 0..chunks {
            push(ty, Part::Len3 { lo: (k * step) as u16, hi: ((k + 1) * step) as u16, restricted: false });
        }
    }
    for ty in ALL_TYPES {
        push(ty, Part::Short);
        push(ty, Part::Structured);
        push(ty, Part::Boundary);
        if !matches!(ty, Ty::ServiceName | Ty::NodeName) {
            push(ty, Part::Mutations);
        }
    }
    push(Ty::FilePath, Part::Derived);
    v
}

fn isolation_configs(tier: Tier) -> Vec<(Cfg, Plan)> {
    use iso::{DomCfg, ICfg};
    let quick = tier == Tier::Quick;
    // prefix relations: same, A prefix of B, B prefix of A, siblings with a common stem, unrelated
    let prefix_pairs: [(usize, usize); 8] = [(0, 0), (2, 0), (0, 2), (0, 1), (1, 0), (0, 3), (2, 4), (4, 2)];
    // root relations: same, A below B, B below A, unrelated
    let root_pairs: [(usize, usize); 4] = [(0, 0), (1, 0), (0, 1), (0, 2)];
    let mut v = Vec::new();
    // quick: every prefix relation under the same root, every root relation with the same prefix, and
    // three mixed pairs; thorough: the full product
    let quick_pairs: [((usize, usize), (usize, usize)); 13] = [
        ((2, 4), (0, 0)),
        ((4, 2), (0, 0)),
        ((0, 0), (0, 0)),
        ((2, 0), (0, 0)),
        ((0, 2), (0, 0)),
        ((0, 1), (0, 0)),
        ((0, 3), (0, 0)),
        ((0, 0), (1, 0)),
        ((0, 0), (0, 1)),
        ((0, 0), (0, 2)),
        ((2, 0), (1, 0)),
        ((0, 2), (0, 1)),
        ((0, 3), (0, 2)),
    ];
    for (pa, pb) in prefix_pairs {
        for (ra, rb) in root_pairs {
            if quick && !quick_pairs.contains(&((pa, pb), (ra, rb))) {
                continue;
            }
            // one step costs 15..35 ms (files, shared memory, a helper process for the dead node), so the
            // depth follows the risk: deepest where both applications share the root directory
            let same_root = (ra, rb) == (0, 0);
            let nested_same_prefix = (pa, pb) == (0, 0) && (ra, rb) != (0, 2);
            let depth = if quick {
                if same_root { 4 } else { 3 }
            } else if same_root || nested_same_prefix {
                5
            } else {
                4
            };
            let frontier = if !quick && same_root { Some((120, 7)) } else { None };
            // a step is dominated by blocking system calls (fsync, process start), not by CPU time: every
            // pair is split over its three first operations
            let plan = Plan { tree_depth: depth, finish_prefixes: false, frontier, split: 3 };
            v.push((Cfg::Iso(ICfg { a: DomCfg { prefix: pa, root: ra }, b: DomCfg { prefix: pb, root: rb }, spawn_anytime: !quick && same_root, pubsub: !quick }), plan));
        }
    }
    v
}

impl Harness for H {
    type Cfg = Cfg;
    type Op = Op;
    type Sys = Sys;
    fn name(&self) -> &'static str {
        "h_names"
    }
    fn property(&self) -> &'static str {
        "C19"
    }
    fn rule(&self) -> String {
        // the workers of this run left their input counts behind
        let dir = counts_dir(std::process::id());
        let (mut inputs, mut accepted, mut chunks) = (0u64, 0u64, 0u64);
        if let Ok(rd) = std::fs::read_dir(&dir) {
            for e in rd.flatten() {
                if let Ok(t) = std::fs::read_to_string(e.path()) {
                    let mut it = t.split_whitespace().filter_map(|x| x.parse::<u64>().ok());
                    inputs += it.next().unwrap_or(0);
                    accepted += it.next().unwrap_or(0);
                    chunks += 1;
                }
            }
        }
        let _ = std::fs::remove_dir_all(&dir);
        format!(
            "(a) validation: one execution = one chunk of the input space of one string type (FileName, RestrictedFileName<8>, Path, FilePath, UserName, GroupName, Base64Url, ServiceName, NodeName); the single operation CheckChunk loops over the chunk. Chunks per type: every byte string of length 0..=2 over 0..=255; every byte string of length 3 over 0..=255 (thorough tier: every type; quick tier: FileName, Path and FilePath, the other types over a 32 byte alphabet; split by first byte; for the &str constructors of ServiceName / NodeName only the valid UTF-8 strings are expressible); every string over {{'a','/','.',NUL,one type specific byte}} up to length 8; strings of length max-1, max, max+1, max+2 with special bytes and endings at the borders; every mutating operation (push, push_bytes, insert, insert_bytes, remove, remove_range, pop, retain, strip_prefix, strip_suffix, truncate) with every byte (single byte operations: 0..=255) / chunk of length <= 2 over a 12 byte alphabet / position on every accepted string of length <= 2 over that alphabet; derived names (FilePath::file_name/path, Path::entries, FilePath::from_path_and_file, Path::add_path_entry). Each input is compared with an independent predicate written from the documentation (accept <=> predicate, round trip through as_bytes / Display / Into<String>, a rejected edit leaves the value untouched, accepted file names contain no separator, NUL, '.' or '..'). This run: {inputs} inputs in {chunks} chunks checked, {accepted} accepted. (b) isolation: every sequence of create/drop node, create/drop service `svc` (event; thorough tier also publish-subscribe), 'a forked process creates a node and a service and dies', cleanup of dead nodes by two applications A and B (ipc service type) for pairs of domain configurations drawn from 8 prefix relations (same, prefix of one another in both directions, the same with an extension made of a digit, common stem in both directions, unrelated) x 4 root path relations (same, nested in both directions, unrelated) - thorough: all 32, quick: 13 covering every relation; after every step both sides list nodes, list services and call does_exist, the side that did not act also tries to open, and must see exactly the objects of their own domain; files and shared memory objects that appear carry the acting side's prefix and files lie under its root. A distinct state is (node, services held, dead nodes) of both sides."
        )
    }
    fn configs(&self, tier: Tier) -> Vec<(Cfg, Plan)> {
        if is_parent_run() {
            let _ = std::fs::create_dir_all(counts_dir(std::process::id()));
        }
        // the isolation workers run longest: queue them first
        let mut v = isolation_configs(tier);
        v.extend(validation_configs(tier));
        v
    }
    fn new_sys(&self, cfg: &Cfg) -> Result<Sys, Fail> {
        iceoryx2_log::set_log_level(iceoryx2_log::LogLevel::Fatal);
        match cfg {
            Cfg::Val(c) => Ok(Sys::Val(Box::new(valid::new_sys(c)))),
            Cfg::Iso(c) => Ok(Sys::Iso(Box::new(iso::new_sys(c)?))),
        }
    }
    fn enabled(&self, s: &Sys) -> Vec<Op> {
        match s {
            Sys::Val(s) => {
                if valid::is_done(s) {
                    vec![]
                } else {
                    vec![Op::CheckChunk]
                }
            }
            Sys::Iso(s) => iso::enabled(s).into_iter().map(Op::Iso).collect(),
        }
    }
    fn apply(&self, s: &mut Sys, op: &Op) -> Result<(), Fail> {
        match (s, op) {
            (Sys::Val(s), Op::CheckChunk) => {
                valid::check_chunk(s)?;
                // leave the number of inputs behind for the parent's report
                let dir = counts_dir(unsafe { libc::getppid() } as u32);
                if dir.is_dir() {
                    let n = FILE_COUNTER.fetch_add(1, Ordering::Relaxed);
                    let _ = std::fs::write(dir.join(format!("{}_{n}", std::process::id())), format!("{} {}", s.inputs, s.accepted));
                }
                Ok(())
            }
            (Sys::Iso(s), Op::Iso(op)) => iso::apply(s, op),
            _ => unreachable!(),
        }
    }
    fn finish(&self, s: Sys) -> Result<(), Fail> {
        match s {
            Sys::Val(_) => Ok(()),
            Sys::Iso(s) => iso::finish(*s),
        }
    }
    fn model_key(&self, s: &Sys) -> u64 {
        match s {
            Sys::Val(s) => seqx::hash_of(&(s.inputs, s.accepted)),
            Sys::Iso(s) => iso::model_key(s),
        }
    }
    fn nontrivial(&self, s: &Sys) -> bool {
        match s {
            Sys::Val(s) => s.inputs > 0,
            Sys::Iso(s) => iso::nontrivial(s),
        }
    }
}

fn main() {
    let args: Vec<String> = std::env::args().collect();
    if args.len() == 4 && args[1] == "--dead-child" {
        iso::dead_child_main(&args[2], &args[3]);
    }
    seqx::main(H);
}
