//! C19 (b): two applications configured with different prefixes and/or root paths never see, open,
//! list or clean up each other's nodes and services, and everything an application creates lives
//! under its root path (files) and carries its prefix (files and shared memory objects).

use std::collections::BTreeSet;
use std::path::{Path as StdPath, PathBuf};
use std::sync::atomic::{AtomicU64, Ordering};

use iceoryx2::config::Config;
use iceoryx2::node::{Node, NodeBuilder, NodeState, NodeView};
use iceoryx2::prelude::{ipc, CallbackProgression, MessagingPattern, ServiceName};
use iceoryx2::service::builder::event::{EventCreateError, EventOpenError};
use iceoryx2::service::builder::publish_subscribe::{PublishSubscribeCreateError, PublishSubscribeOpenError};
use iceoryx2::service::port_factory::{event, publish_subscribe};
use iceoryx2::service::Service;
use iceoryx2_bb_container::semantic_string::SemanticString;
use iceoryx2_bb_system_types::file_name::FileName;
use iceoryx2_bb_system_types::path::Path;
use seqx::{ensure, Fail};
use serde::{Deserialize, Serialize};

type Svc = ipc::Service;

/// "a1": an extension of "a" that consists of a digit (node and port ids are decimal numbers)
pub const PREFIXES: [&str; 5] = ["a_", "ab_", "a", "b_", "a1"];
pub const ROOTS: [&str; 3] = ["r1", "r1/sub", "r2"];

#[derive(Clone, Copy, Debug, Serialize, Deserialize, PartialEq, Eq, Hash)]
pub struct DomCfg {
    /// index into PREFIXES
    pub prefix: usize,
    /// index into ROOTS
    pub root: usize,
}

#[derive(Clone, Debug, Serialize, Deserialize)]
pub struct ICfg {
    pub a: DomCfg,
    pub b: DomCfg,
    /// SpawnDead(A) is offered in every state (true) or only while A has no node (false; the process
    /// that dies is independent of A's own node, this only trims equivalent interleavings)
    pub spawn_anytime: bool,
    /// A also creates the publish-subscribe flavour of the service (false: event only)
    pub pubsub: bool,
}

#[derive(Clone, Copy, Debug, Serialize, Deserialize, PartialEq, Eq, Hash)]
pub enum Pat {
    PubSub,
    Event,
}

#[derive(Clone, Copy, Debug, Serialize, Deserialize, PartialEq, Eq, Hash)]
pub enum Side {
    A,
    B,
}

#[derive(Clone, Debug, Serialize, Deserialize)]
pub enum IOp {
    CreateNode(Side),
    DropNode(Side),
    /// create the service with the fixed name `svc` and the given messaging pattern
    CreateSvc(Side, Pat),
    DropSvc(Side, Pat),
    /// a forked child process creates a node and the event service `svc_dead` under the side's
    /// configuration and dies without cleaning up
    SpawnDead(Side),
    /// node.try_cleanup_dead_nodes()
    Cleanup(Side),
}

enum Handle {
    PubSub(#[allow(dead_code)] publish_subscribe::PortFactory<Svc, u64, ()>),
    Event(#[allow(dead_code)] event::PortFactory<Svc>),
}

struct Dom {
    cfg: DomCfg,
    prefix: String,
    root: PathBuf,
    config: Config,
    /// services held by this side (index 0 = pubsub, 1 = event); dropped before the node
    svc: [Option<Handle>; 2],
    node: Option<Node<Svc>>,
    /// model: number of dead nodes this side has spawned that are not cleaned up yet
    dead: usize,
}

pub struct ISys {
    spawn_anytime: bool,
    pubsub: bool,
    tag: String,
    base: PathBuf,
    doms: [Dom; 2],
    same: bool,
    steps: u32,
}

static COUNTER: AtomicU64 = AtomicU64::new(0);

fn idx(s: Side) -> usize {
    match s {
        Side::A => 0,
        Side::B => 1,
    }
}

fn pidx(p: Pat) -> usize {
    match p {
        Pat::PubSub => 0,
        Pat::Event => 1,
    }
}

fn setup_fail(what: &str, e: impl core::fmt::Debug) -> Fail {
    Fail::new("iso-setup", what.to_string(), format!("{e:?}"))
}

fn make_dom(cfg: DomCfg, tag: &str, base: &StdPath) -> Result<Dom, Fail> {
    // the per-run tag comes first so that "<tag>a" stays a prefix of "<tag>a_" and "<tag>ab_"
    let prefix = format!("{tag}{}", PREFIXES[cfg.prefix]);
    let root = base.join(ROOTS[cfg.root]);
    std::fs::create_dir_all(&root).map_err(|e| setup_fail("create root", e))?;
    let mut config = Config::default();
    config.global.prefix = FileName::new(prefix.as_bytes()).map_err(|e| setup_fail("prefix", e))?;
    config.global.set_root_path(&Path::new(root.to_str().unwrap().as_bytes()).map_err(|e| setup_fail("root path", e))?);
    config.global.node.cleanup_dead_nodes_on_creation = false;
    config.global.node.cleanup_dead_nodes_on_destruction = false;
    Ok(Dom { cfg, prefix, root, config, svc: [None, None], node: None, dead: 0 })
}

/// A replayed failing execution is abandoned by the engine without running destructors, a killed
/// worker cannot clean up either: remove what processes that no longer exist left behind.
fn collect_garbage_of_dead_processes() {
    static ONCE: std::sync::Once = std::sync::Once::new();
    ONCE.call_once(|| {
        let alive = |pid: i32| pid > 0 && (unsafe { libc::kill(pid, 0) } == 0 || std::io::Error::last_os_error().raw_os_error() == Some(libc::EPERM));
        let mut dead: Vec<i32> = Vec::new();
        if let Ok(rd) = std::fs::read_dir("/verif/.run") {
            for e in rd.flatten() {
                if let Some(pid) = e.file_name().to_str().and_then(|n| n.strip_prefix("h_names-")).and_then(|p| p.parse::<i32>().ok()) {
                    if !alive(pid) {
                        let _ = std::fs::remove_dir_all(e.path());
                        dead.push(pid);
                    }
                }
            }
        }
        if let Ok(rd) = std::fs::read_dir("/dev/shm") {
            for e in rd.flatten() {
                let name = e.file_name();
                let Some(n) = name.to_str() else { continue };
                if let Some(rest) = n.strip_prefix("hn") {
                    if let Some(pid) = rest.split('x').next().and_then(|p| p.parse::<i32>().ok()) {
                        if rest[pid.to_string().len()..].starts_with('x') && (dead.contains(&pid) || !alive(pid)) {
                            let _ = std::fs::remove_file(e.path());
                        }
                    }
                }
            }
        }
    });
}

pub fn new_sys(cfg: &ICfg) -> Result<ISys, Fail> {
    iceoryx2::prelude::set_log_level(iceoryx2::prelude::LogLevel::Fatal);
    collect_garbage_of_dead_processes();
    let n = COUNTER.fetch_add(1, Ordering::Relaxed);
    let pid = std::process::id();
    let tag = format!("hn{pid}x{n}_");
    let base = PathBuf::from(format!("/verif/.run/h_names-{pid}/{n}"));
    // leftovers of an earlier (killed) process with the same pid
    let _ = std::fs::remove_dir_all(&base);
    for n in shm_entries(&tag) {
        let _ = std::fs::remove_file(format!("/dev/shm/{n}"));
    }
    std::fs::create_dir_all(&base).map_err(|e| setup_fail("create base", e))?;
    let a = make_dom(cfg.a, &tag, &base)?;
    let b = make_dom(cfg.b, &tag, &base)?;
    Ok(ISys { spawn_anytime: cfg.spawn_anytime, pubsub: cfg.pubsub, tag, base, same: cfg.a == cfg.b, doms: [a, b], steps: 0 })
}

pub fn enabled(s: &ISys) -> Vec<IOp> {
    let mut v = Vec::new();
    let a = &s.doms[0];
    let b = &s.doms[1];
    // A: the application under observation
    if a.node.is_none() {
        v.push(IOp::CreateNode(Side::A));
    } else {
        for p in [Pat::PubSub, Pat::Event] {
            if p == Pat::PubSub && !s.pubsub {
                continue;
            }
            if a.svc[pidx(p)].is_none() {
                v.push(IOp::CreateSvc(Side::A, p));
            } else {
                v.push(IOp::DropSvc(Side::A, p));
            }
        }
        if a.svc.iter().all(|h| h.is_none()) {
            v.push(IOp::DropNode(Side::A));
        }
    }
    if a.dead == 0 && (s.spawn_anytime || a.node.is_none()) {
        v.push(IOp::SpawnDead(Side::A));
    }
    // B: the neighbour
    if b.node.is_none() {
        v.push(IOp::CreateNode(Side::B));
    } else {
        if b.svc[1].is_none() {
            v.push(IOp::CreateSvc(Side::B, Pat::Event));
        } else {
            v.push(IOp::DropSvc(Side::B, Pat::Event));
        }
        v.push(IOp::Cleanup(Side::B));
        if b.svc.iter().all(|h| h.is_none()) {
            v.push(IOp::DropNode(Side::B));
        }
    }
    v
}

fn service_name() -> ServiceName {
    ServiceName::new("svc").unwrap()
}

fn dead_service_name() -> ServiceName {
    ServiceName::new("svc_dead").unwrap()
}

fn files_under(dir: &StdPath, out: &mut BTreeSet<PathBuf>) {
    if let Ok(rd) = std::fs::read_dir(dir) {
        for e in rd.flatten() {
            let p = e.path();
            if e.file_type().map(|t| t.is_dir()).unwrap_or(false) {
                files_under(&p, out);
                // an empty directory is an object of its own
                out.insert(p);
            } else {
                out.insert(p);
            }
        }
    }
}

fn shm_entries(tag: &str) -> BTreeSet<String> {
    let mut out = BTreeSet::new();
    if let Ok(rd) = std::fs::read_dir("/dev/shm") {
        for e in rd.flatten() {
            if let Some(n) = e.file_name().to_str() {
                if n.contains(tag) {
                    out.insert(n.to_string());
                }
            }
        }
    }
    out
}

struct Snapshot {
    files: BTreeSet<PathBuf>,
    shm: BTreeSet<String>,
}

fn snapshot(s: &ISys) -> Snapshot {
    let mut files = BTreeSet::new();
    files_under(&s.base, &mut files);
    Snapshot { files, shm: shm_entries(&s.tag) }
}

impl ISys {
    /// model: does (name "svc", pattern) exist in the domain of `side`
    fn exists(&self, side: Side, p: Pat) -> bool {
        let me = &self.doms[idx(side)];
        let other = &self.doms[1 - idx(side)];
        me.svc[pidx(p)].is_some() || (self.same && other.svc[pidx(p)].is_some())
    }

    fn dead_in_domain(&self, side: Side) -> usize {
        let me = &self.doms[idx(side)];
        let other = &self.doms[1 - idx(side)];
        me.dead + if self.same { other.dead } else { 0 }
    }

    fn alive_ids(&self, side: Side) -> BTreeSet<u128> {
        let mut ids = BTreeSet::new();
        let me = &self.doms[idx(side)];
        let other = &self.doms[1 - idx(side)];
        if let Some(n) = &me.node {
            ids.insert(n.id().value());
        }
        if self.same {
            if let Some(n) = &other.node {
                ids.insert(n.id().value());
            }
        }
        ids
    }

    /// everything that appeared while `side` acted lies under its root and carries its prefix
    fn check_new_objects(&self, side: Side, before: &Snapshot, after: &Snapshot, what: &str) -> Result<(), Fail> {
        let me = &self.doms[idx(side)];
        let other = &self.doms[1 - idx(side)];
        let rel = format!("prefix {:?} root {:?} vs prefix {:?} root {:?}", PREFIXES[me.cfg.prefix], ROOTS[me.cfg.root], PREFIXES[other.cfg.prefix], ROOTS[other.cfg.root]);
        let node_dir = String::from_utf8_lossy(other.config.global.node.directory.as_bytes()).to_string();
        let svc_dir = String::from_utf8_lossy(other.config.global.service.directory.as_bytes()).to_string();
        for f in after.files.difference(&before.files) {
            let shown = f.strip_prefix(&self.base).unwrap_or(f).display().to_string().replace(&self.tag, "<tag>");
            let Ok(below) = f.strip_prefix(&me.root) else {
                return Err(Fail::new("file-outside-root", format!("{what} creates a file outside of the configured root"), format!("{shown} appeared ({rel})")));
            };
            if me.root != other.root {
                let in_other = f.strip_prefix(other.root.join(&node_dir)).is_ok() || f.strip_prefix(other.root.join(&svc_dir)).is_ok() || (other.root.starts_with(&me.root) && f.starts_with(&other.root));
                ensure!(!in_other, "file-in-foreign-root", format!("{what} creates a file inside of the other application's root"), "{shown} appeared ({rel})");
            }
            let carries_prefix = below.components().any(|c| c.as_os_str().to_str().map(|c| c.starts_with(&me.prefix)).unwrap_or(false));
            let is_plain_dir = f.is_dir() && !below.components().any(|c| c.as_os_str().to_str().map(|c| c.contains(&self.tag)).unwrap_or(false));
            ensure!(carries_prefix || is_plain_dir, "file-without-prefix", format!("{what} creates a file that does not carry the configured prefix"), "{shown} appeared ({rel})");
        }
        for n in after.shm.difference(&before.shm) {
            let name = n.trim_start_matches('/');
            ensure!(
                name.starts_with(&me.prefix),
                "shm-without-prefix",
                format!("{what} creates a shared memory object that does not carry the configured prefix"),
                "{} appeared ({rel})",
                n.replace(&self.tag, "<tag>")
            );
        }
        Ok(())
    }

    /// what each side can see must be exactly what exists in its own domain
    fn probe(&self, actor: Side, after: &str) -> Result<(), Fail> {
        for side in [Side::A, Side::B] {
            let me = &self.doms[idx(side)];
            let other = &self.doms[1 - idx(side)];
            let rel = format!(
                "{side:?} (prefix {:?} root {:?}) looking, other side has prefix {:?} root {:?}",
                PREFIXES[me.cfg.prefix], ROOTS[me.cfg.root], PREFIXES[other.cfg.prefix], ROOTS[other.cfg.root]
            );
            // ---- nodes
            // One prefix is the other one followed by digits: node ids are decimal numbers, so both
            // sides can take the other's node entries for their own. For the side with the LONGER
            // prefix this depends on whether the other side's (random) node id happens to start with
            // those digits - not a function of the history, so that view is not compared (the
            // shorter side shows the same defect deterministically).
            let ext_of = |long: &str, short: &str| long.len() > short.len() && long.starts_with(short) && long[short.len()..].chars().all(|c| c.is_ascii_digit());
            if ext_of(&me.prefix, &other.prefix) {
                continue;
            }
            let digit_site = if ext_of(&other.prefix, &me.prefix) { " [the other prefix is the own prefix followed by digits]" } else { "" };
            let mut alive: BTreeSet<u128> = BTreeSet::new();
            let mut dead = 0usize;
            let mut odd = 0usize;
            let r = Node::<Svc>::list(&me.config, |state| {
                match state {
                    NodeState::Alive(v) => {
                        alive.insert(v.id().value());
                    }
                    NodeState::Dead(_) => dead += 1,
                    _ => odd += 1,
                }
                CallbackProgression::Continue
            });
            ensure!(r.is_ok(), "list-failed", "Node::list".to_string(), "{r:?} after {after}; {rel}");
            let want = self.alive_ids(side);
            let foreign: Vec<&u128> = alive.difference(&want).collect();
            ensure!(
                foreign.is_empty() && odd == 0 && dead <= self.dead_in_domain(side),
                "foreign-node-visible",
                format!("Node::list shows a node of another domain{digit_site}"),
                "after {after}: {} foreign alive, {dead} dead (own domain has {}), {odd} undefined/inaccessible; {rel}",
                foreign.len(),
                self.dead_in_domain(side)
            );
            ensure!(
                alive == want && dead == self.dead_in_domain(side),
                "own-node-missing",
                "Node::list misses a node of the own domain".to_string(),
                "after {after}: {} alive listed, {} expected; {dead} dead listed, {} expected; {rel}",
                alive.len(),
                want.len(),
                self.dead_in_domain(side)
            );
            // ---- services
            let mut listed: BTreeSet<(String, String)> = BTreeSet::new();
            let r = Svc::list(&me.config, |d| {
                let pattern = format!("{:?}", d.static_details.messaging_pattern());
                let pattern = pattern.split('(').next().unwrap_or("").to_string();
                listed.insert((d.static_details.name().as_str().to_string(), pattern));
                CallbackProgression::Continue
            });
            ensure!(r.is_ok(), "list-failed", "Service::list".to_string(), "{r:?} after {after}; {rel}");
            let mut want: BTreeSet<(String, String)> = BTreeSet::new();
            for (p, mp) in [(Pat::PubSub, MessagingPattern::PublishSubscribe), (Pat::Event, MessagingPattern::Event)] {
                if self.exists(side, p) {
                    want.insert(("svc".to_string(), format!("{mp:?}")));
                }
            }
            if self.dead_in_domain(side) > 0 {
                want.insert(("svc_dead".to_string(), format!("{:?}", MessagingPattern::Event)));
            }
            let foreign: Vec<_> = listed.difference(&want).collect();
            ensure!(foreign.is_empty(), "foreign-service-visible", "Service::list shows a service of another domain".to_string(), "after {after}: listed {listed:?}, own domain has {want:?}; {rel}");
            ensure!(listed == want, "own-service-missing", "Service::list misses a service of the own domain".to_string(), "after {after}: listed {listed:?}, own domain has {want:?}; {rel}");
            for (p, mp) in [(Pat::PubSub, MessagingPattern::PublishSubscribe), (Pat::Event, MessagingPattern::Event)] {
                let r = Svc::does_exist(&service_name(), &me.config, mp);
                let want = self.exists(side, p);
                match r {
                    Ok(v) => {
                        ensure!(
                            v == want,
                            if v { "foreign-service-visible" } else { "own-service-missing" },
                            format!("Service::does_exist {p:?}"),
                            "after {after}: does_exist = {v}, own domain says {want}; {rel}"
                        );
                    }
                    Err(e) => return Err(Fail::new("list-failed", "Service::does_exist".to_string(), format!("{e:?} after {after}; {rel}"))),
                }
                // ---- open
                // (the acting side's own view of its own services is not what this property is about)
                if let (Some(node), true) = (&me.node, side != actor) {
                    match p {
                        Pat::PubSub => match node.service_builder(&service_name()).publish_subscribe::<u64>().open() {
                            Ok(h) => {
                                drop(h);
                                ensure!(want, "foreign-service-opened", "open publish_subscribe".to_string(), "after {after}: opened a service that does not exist in the own domain; {rel}");
                            }
                            Err(e) => {
                                ensure!(!want, "own-service-missing", "open publish_subscribe".to_string(), "after {after}: open failed with {e:?}; {rel}");
                                ensure!(e == PublishSubscribeOpenError::DoesNotExist, "open-wrong-error", "open publish_subscribe".to_string(), "after {after}: {e:?} instead of DoesNotExist; {rel}");
                            }
                        },
                        Pat::Event => match node.service_builder(&service_name()).event().open() {
                            Ok(h) => {
                                drop(h);
                                ensure!(want, "foreign-service-opened", "open event".to_string(), "after {after}: opened a service that does not exist in the own domain; {rel}");
                            }
                            Err(e) => {
                                ensure!(!want, "own-service-missing", "open event".to_string(), "after {after}: open failed with {e:?}; {rel}");
                                ensure!(e == EventOpenError::DoesNotExist, "open-wrong-error", "open event".to_string(), "after {after}: {e:?} instead of DoesNotExist; {rel}");
                            }
                        },
                    }
                }
            }
        }
        Ok(())
    }
}

/// Entry point of the helper process (`h_names --dead-child <prefix> <root>`): creates a node and
/// the event service `svc_dead` under the given domain configuration and dies without cleanup.
/// (A forked copy of the worker cannot be used: it would inherit the cached unique process id.)
pub fn dead_child_main(prefix: &str, root: &str) -> ! {
    iceoryx2::prelude::set_log_level(iceoryx2::prelude::LogLevel::Fatal);
    let mut config = Config::default();
    config.global.prefix = FileName::new(prefix.as_bytes()).unwrap();
    config.global.set_root_path(&Path::new(root.as_bytes()).unwrap());
    config.global.node.cleanup_dead_nodes_on_creation = false;
    config.global.node.cleanup_dead_nodes_on_destruction = false;
    let code = (|| {
        let Ok(node) = NodeBuilder::new().config(&config).create::<Svc>() else { return 3 };
        let Ok(svc) = node.service_builder(&dead_service_name()).event().open_or_create() else { return 4 };
        std::mem::forget(svc);
        std::mem::forget(node);
        0
    })();
    unsafe { libc::_exit(code) }
}

fn spawn_dead(d: &Dom) -> Result<(), Fail> {
    let exe = std::env::current_exe().map_err(|e| setup_fail("current_exe", e))?;
    let status = std::process::Command::new(exe)
        .arg("--dead-child")
        .arg(&d.prefix)
        .arg(d.root.to_str().unwrap())
        .stdin(std::process::Stdio::null())
        .status()
        .map_err(|e| setup_fail("spawn child", e))?;
    if status.code() != Some(0) {
        return Err(Fail::new("iso-setup", "child process".to_string(), format!("child that creates the dead node ended with {status:?}")));
    }
    Ok(())
}

/// Panic messages of the repository dump whole objects (addresses, unique ids); the engine compares
/// the replay output textually, so only the digit-free end of the message is kept.
fn stable_panic_message(p: Box<dyn std::any::Any + Send>) -> String {
    let msg = p.downcast_ref::<&str>().map(|s| s.to_string()).or(p.downcast_ref::<String>().cloned()).unwrap_or_default();
    let tail = msg.rsplit("} ").next().unwrap_or(&msg).to_string();
    let mut out: String = tail.chars().filter(|c| !c.is_ascii_digit()).collect();
    out.truncate(300);
    out
}

pub fn apply(s: &mut ISys, op: &IOp) -> Result<(), Fail> {
    match std::panic::catch_unwind(std::panic::AssertUnwindSafe(|| apply_inner(s, op))) {
        Ok(r) => r,
        Err(p) => Err(Fail::new("panic", format!("{op:?}").split('(').next().unwrap_or("").to_string(), stable_panic_message(p))),
    }
}

fn apply_inner(s: &mut ISys, op: &IOp) -> Result<(), Fail> {
    s.steps += 1;
    let before = snapshot(s);
    let what;
    let actor;
    match op {
        IOp::CreateNode(side) => {
            actor = *side;
            what = "node creation";
            let d = &mut s.doms[idx(*side)];
            let node = NodeBuilder::new().config(&d.config).create::<Svc>().map_err(|e| Fail::new("create-failed", "NodeBuilder::create".to_string(), format!("{e:?}")))?;
            d.node = Some(node);
        }
        IOp::DropNode(side) => {
            actor = *side;
            what = "node destruction";
            s.doms[idx(*side)].node = None;
        }
        IOp::CreateSvc(side, p) => {
            actor = *side;
            what = "service creation";
            let taken = s.same && s.doms[1 - idx(*side)].svc[pidx(*p)].is_some();
            let d = &mut s.doms[idx(*side)];
            let node = d.node.as_ref().expect("enabled");
            let rel = format!("prefix {:?} root {:?}", PREFIXES[d.cfg.prefix], ROOTS[d.cfg.root]);
            match p {
                Pat::PubSub => match node.service_builder(&service_name()).publish_subscribe::<u64>().create() {
                    Ok(h) => {
                        ensure!(!taken, "create-twice", "create publish_subscribe".to_string(), "the same domain created the same service twice");
                        d.svc[0] = Some(Handle::PubSub(h));
                    }
                    Err(e) => {
                        ensure!(
                            taken && e == PublishSubscribeCreateError::AlreadyExists,
                            "create-blocked-by-foreign-service",
                            "create publish_subscribe with a name used in another domain".to_string(),
                            "create failed with {e:?} although the service does not exist in the own domain ({rel})"
                        );
                    }
                },
                Pat::Event => match node.service_builder(&service_name()).event().create() {
                    Ok(h) => {
                        ensure!(!taken, "create-twice", "create event".to_string(), "the same domain created the same service twice");
                        d.svc[1] = Some(Handle::Event(h));
                    }
                    Err(e) => {
                        ensure!(
                            taken && e == EventCreateError::AlreadyExists,
                            "create-blocked-by-foreign-service",
                            "create event with a name used in another domain".to_string(),
                            "create failed with {e:?} although the service does not exist in the own domain ({rel})"
                        );
                    }
                },
            }
        }
        IOp::DropSvc(side, p) => {
            actor = *side;
            what = "service destruction";
            s.doms[idx(*side)].svc[pidx(*p)] = None;
        }
        IOp::SpawnDead(side) => {
            actor = *side;
            what = "node and service creation in a process that dies";
            let d = &mut s.doms[idx(*side)];
            spawn_dead(d)?;
            d.dead += 1;
        }
        IOp::Cleanup(side) => {
            actor = *side;
            what = "dead node cleanup";
            let expected = s.dead_in_domain(*side);
            let same = s.same;
            let state = s.doms[idx(*side)].node.as_ref().expect("enabled").try_cleanup_dead_nodes();
            ensure!(
                state.failed_cleanups == 0 && state.cleanups as usize == expected,
                if (state.cleanups as usize) > expected { "foreign-node-cleaned" } else { "own-node-not-cleaned" },
                "Node::try_cleanup_dead_nodes".to_string(),
                "cleanups {} failed {} but the own domain has {expected} dead nodes",
                state.cleanups,
                state.failed_cleanups
            );
            s.doms[idx(*side)].dead = 0;
            if same {
                s.doms[1 - idx(*side)].dead = 0;
            }
        }
    }
    let after = snapshot(s);
    s.check_new_objects(actor, &before, &after, what)?;
    // whatever disappeared must have belonged to the acting side
    {
        let me = &s.doms[idx(actor)];
        for f in before.files.difference(&after.files) {
            ensure!(
                f.starts_with(&me.root),
                "foreign-file-removed",
                format!("{what} removes a file outside of the configured root"),
                "{} disappeared",
                f.strip_prefix(&s.base).unwrap_or(f).display().to_string().replace(&s.tag, "<tag>")
            );
        }
        for n in before.shm.difference(&after.shm) {
            ensure!(
                n.trim_start_matches('/').starts_with(&me.prefix),
                "foreign-shm-removed",
                format!("{what} removes a shared memory object of another prefix"),
                "{} disappeared",
                n.replace(&s.tag, "<tag>")
            );
        }
    }
    s.probe(actor, what)
}

impl Drop for ISys {
    fn drop(&mut self) {
        for d in self.doms.iter_mut() {
            d.svc = [None, None];
            d.node = None;
        }
        // remove what the dead nodes left behind
        for d in self.doms.iter_mut() {
            if d.dead > 0 {
                if let Ok(node) = NodeBuilder::new().config(&d.config).create::<Svc>() {
                    let _ = node.try_cleanup_dead_nodes();
                }
                d.dead = 0;
            }
        }
        let _ = std::fs::remove_dir_all(&self.base);
        if let Some(parent) = self.base.parent() {
            let _ = std::fs::remove_dir(parent);
        }
        for n in shm_entries(&self.tag) {
            let _ = std::fs::remove_file(format!("/dev/shm/{n}"));
        }
    }
}

pub fn finish(s: ISys) -> Result<(), Fail> {
    drop(s);
    Ok(())
}

pub fn model_key(s: &ISys) -> u64 {
    let st: Vec<(bool, bool, bool, usize)> = s.doms.iter().map(|d| (d.node.is_some(), d.svc[0].is_some(), d.svc[1].is_some(), d.dead)).collect();
    seqx::hash_of(&st)
}

pub fn nontrivial(s: &ISys) -> bool {
    s.steps > 0
}
