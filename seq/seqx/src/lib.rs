//! seqx – E3 of /verif: bounded-exhaustive enumeration of operation sequences on the real
//! iceoryx2 code, compared step by step with a reference model (see /verif/DESIGN.md §3.3).
//!
//! A harness implements [`Harness`]; `seqx::main(h)` is the `main` of the harness binary. The
//! parent process fans (configuration, sub-tree) jobs out over worker processes, merges their
//! results and writes the evidence part that `/verif/check` turns into `evidence/<id>.json`.
//!
//! * tree mode: every sequence of enabled operations up to depth d (optionally every *prefix*
//!   is also run as a complete execution with `finish`), depth-first by re-execution from a
//!   fresh object graph – nothing is merged;
//! * frontier mode: breadth-first over canonical reference-model states: from the shortest
//!   history reaching each distinct model state every enabled operation is tried once.
//!   Reported separately; it never replaces the tree-mode bound.

use std::collections::{BTreeMap, HashSet, VecDeque};
use std::fmt::Debug;
use std::io::Write;
use std::path::{Path, PathBuf};
use std::process::{Child, Command, Stdio};
use std::sync::atomic::{AtomicU32, AtomicU8, Ordering};
use std::time::{Duration, Instant};

use serde::de::DeserializeOwned;
use serde::{Deserialize, Serialize};
use serde_json::{json, Value};

#[derive(Clone, Copy, Debug, PartialEq, Eq)]
pub enum Tier {
    Quick,
    Thorough,
}

#[derive(Clone, Debug)]
pub struct Plan {
    /// all sequences up to this depth (0 = skip tree mode)
    pub tree_depth: usize,
    /// run every prefix as an execution of its own (with `finish`), not only maximal sequences
    pub finish_prefixes: bool,
    /// frontier mode: (maximal number of distinct model states, maximal depth); None = off
    pub frontier: Option<(usize, usize)>,
    /// worker processes this configuration is split over
    pub split: u32,
}

impl Plan {
    pub fn tree(depth: usize) -> Self {
        Plan { tree_depth: depth, finish_prefixes: false, frontier: None, split: 1 }
    }
}

#[derive(Clone, Debug, Serialize, Deserialize)]
pub struct Fail {
    /// which oracle failed (stable, short)
    pub tag: String,
    /// where: the call site / input class that identifies the defect (part of the signature of
    /// a known finding, so keep addresses and counters out of it)
    pub site: String,
    pub detail: String,
}

impl Fail {
    pub fn new(tag: &str, site: impl Into<String>, detail: impl Into<String>) -> Fail {
        Fail { tag: tag.into(), site: site.into(), detail: detail.into() }
    }
}

#[macro_export]
macro_rules! ensure {
    ($cond:expr, $tag:expr, $site:expr, $($arg:tt)*) => {
        if !($cond) {
            return Err($crate::Fail::new($tag, $site, format!($($arg)*)));
        }
    };
}

pub trait Harness: Sync + 'static {
    type Cfg: Clone + Debug + Serialize + DeserializeOwned;
    type Op: Clone + Debug + Serialize + DeserializeOwned;
    type Sys;

    fn name(&self) -> &'static str;
    fn property(&self) -> &'static str;
    /// how the cases are enumerated and what makes a visited state distinct / non-trivial
    fn rule(&self) -> String;
    fn configs(&self, tier: Tier) -> Vec<(Self::Cfg, Plan)>;
    fn new_sys(&self, cfg: &Self::Cfg) -> Result<Self::Sys, Fail>;
    /// operations to try in this state, simplest first; computed from the reference model
    fn enabled(&self, sys: &Self::Sys) -> Vec<Self::Op>;
    /// apply to the real object and the model, compare observations, check invariants
    fn apply(&self, sys: &mut Self::Sys, op: &Self::Op) -> Result<(), Fail>;
    /// end of a sequence: drop everything, final checks
    fn finish(&self, _sys: Self::Sys) -> Result<(), Fail> {
        Ok(())
    }
    /// canonical hash of the reference-model state
    fn model_key(&self, sys: &Self::Sys) -> u64;
    /// is the state worth counting (e.g. not the empty initial state)
    fn nontrivial(&self, _sys: &Self::Sys) -> bool {
        true
    }
    /// violations listed as known findings may be skipped over so that exploration continues
    fn max_violations_per_worker(&self) -> usize {
        8
    }
}

pub fn hash_of<T: std::hash::Hash>(t: &T) -> u64 {
    use std::hash::Hasher;
    let mut h = std::collections::hash_map::DefaultHasher::new();
    t.hash(&mut h);
    h.finish()
}

// ------------------------------------------------------------------------------------------
// crash capture: the indices of the running sequence live in a static buffer that a signal
// handler dumps (async-signal-safe) before the process dies

static CUR_LEN: AtomicU32 = AtomicU32::new(0);
static CUR_STEP: AtomicU32 = AtomicU32::new(0);
static CUR_CFG: AtomicU32 = AtomicU32::new(0);
static CUR_FD: AtomicU32 = AtomicU32::new(u32::MAX);
static CUR: [AtomicU8; 64] = [const { AtomicU8::new(0) }; 64];

extern "C" fn crash_handler(sig: libc::c_int) {
    let fd = CUR_FD.load(Ordering::Relaxed);
    if fd != u32::MAX {
        let mut buf = [0u8; 80];
        buf[0] = sig as u8;
        buf[1..5].copy_from_slice(&CUR_CFG.load(Ordering::Relaxed).to_le_bytes());
        buf[5] = CUR_STEP.load(Ordering::Relaxed) as u8;
        let n = (CUR_LEN.load(Ordering::Relaxed) as usize).min(64);
        buf[6] = n as u8;
        for i in 0..n {
            buf[7 + i] = CUR[i].load(Ordering::Relaxed);
        }
        unsafe {
            libc::write(fd as i32, buf.as_ptr() as *const libc::c_void, 7 + n);
        }
    }
    unsafe { libc::_exit(70) }
}

fn install_crash_capture(path: &Path) {
    let c = std::ffi::CString::new(path.to_str().unwrap()).unwrap();
    let fd = unsafe { libc::open(c.as_ptr(), libc::O_WRONLY | libc::O_CREAT | libc::O_TRUNC, 0o644) };
    if fd >= 0 {
        CUR_FD.store(fd as u32, Ordering::Relaxed);
    }
    for s in [libc::SIGSEGV, libc::SIGBUS, libc::SIGABRT, libc::SIGILL, libc::SIGFPE] {
        unsafe {
            libc::signal(s, crash_handler as usize);
        }
    }
}

fn set_current(cfg: usize, idx: &[u32]) {
    CUR_CFG.store(cfg as u32, Ordering::Relaxed);
    let n = idx.len().min(64);
    for i in 0..n {
        CUR[i].store(idx[i] as u8, Ordering::Relaxed);
    }
    CUR_LEN.store(n as u32, Ordering::Relaxed);
    CUR_STEP.store(0, Ordering::Relaxed);
}

// ------------------------------------------------------------------------------------------

#[derive(Serialize, Deserialize, Clone)]
struct ViolationOut {
    cfg_idx: usize,
    cfg: Value,
    ops: Vec<Value>,
    tag: String,
    site: String,
    detail: String,
    mode: String,
}

#[derive(Serialize, Deserialize, Default)]
struct WorkerOut {
    cfg_idx: usize,
    w: u32,
    executions: u64,
    steps: u64,
    frontier_executions: u64,
    frontier_states: u64,
    frontier_max_depth: u64,
    frontier_complete: bool,
    tree_complete: bool,
    timed_out: bool,
    keys: Vec<u64>,
    violations: Vec<ViolationOut>,
    samples: Vec<Value>,
    max_branching: u64,
    #[serde(default)]
    known_repeats: u64,
}

#[derive(Serialize, Deserialize)]
pub struct ReplayFile {
    pub engine: String,
    pub harness: String,
    pub property: String,
    pub cfg: Value,
    pub ops: Vec<Value>,
    pub tag: String,
    pub site: String,
    pub detail: String,
}

struct Args {
    tier: Tier,
    tier_s: String,
    out: Option<PathBuf>,
    replays: PathBuf,
    jobs: usize,
    budget: Option<f64>,
    job: Option<(usize, u32, u32)>,
    replay: Option<PathBuf>,
    decode: Option<(usize, usize, Vec<u32>)>,
    only: Option<usize>,
    list: bool,
}

fn parse_args() -> Args {
    let tier_s = std::env::var("VERIF_TIER").unwrap_or_else(|_| "quick".into());
    let mut a = Args {
        tier: Tier::Quick,
        tier_s,
        out: None,
        replays: PathBuf::from("/verif/replays"),
        jobs: std::thread::available_parallelism().map(|n| n.get()).unwrap_or(8),
        budget: None,
        job: None,
        replay: None,
        decode: None,
        only: None,
        list: false,
    };
    let v: Vec<String> = std::env::args().skip(1).collect();
    let mut i = 0;
    while i < v.len() {
        match v[i].as_str() {
            "--tier" => {
                a.tier_s = v[i + 1].clone();
                i += 1;
            }
            "--out" => {
                a.out = Some(PathBuf::from(&v[i + 1]));
                i += 1;
            }
            "--replays" => {
                a.replays = PathBuf::from(&v[i + 1]);
                i += 1;
            }
            "--jobs" => {
                a.jobs = v[i + 1].parse().unwrap();
                i += 1;
            }
            "--budget" => {
                a.budget = Some(v[i + 1].parse().unwrap());
                i += 1;
            }
            "--job" => {
                a.job = Some((v[i + 1].parse().unwrap(), v[i + 2].parse().unwrap(), v[i + 3].parse().unwrap()));
                i += 3;
            }
            "--replay" => {
                a.replay = Some(PathBuf::from(&v[i + 1]));
                i += 1;
            }
            "--decode" => {
                let idx: Vec<u32> = v[i + 3].split(',').filter(|s| !s.is_empty()).map(|s| s.parse().unwrap()).collect();
                a.decode = Some((v[i + 1].parse().unwrap(), v[i + 2].parse().unwrap(), idx));
                i += 3;
            }
            "--only" => {
                a.only = Some(v[i + 1].parse().unwrap());
                i += 1;
            }
            "--list" => a.list = true,
            "--known-file" => {
                let _ = KNOWN_FILE.set(v[i + 1].clone());
                i += 1;
            }
            "--prop" => {
                let _ = SELECTED_PROPERTY.set(v[i + 1].clone());
                i += 1;
            }
            other => machinery_error(&format!("unknown argument {other}")),
        }
        i += 1;
    }
    a.tier = if a.tier_s == "thorough" { Tier::Thorough } else { Tier::Quick };
    a
}

static SELECTED_PROPERTY: std::sync::OnceLock<String> = std::sync::OnceLock::new();
static KNOWN_FILE: std::sync::OnceLock<String> = std::sync::OnceLock::new();

/// signatures (`harness|tag|site`) listed with status "known" for `property`
fn known_signatures(property: &str) -> Vec<String> {
    let Some(p) = KNOWN_FILE.get() else { return Vec::new() };
    let Ok(txt) = std::fs::read_to_string(p) else { return Vec::new() };
    let Ok(v) = serde_json::from_str::<Value>(&txt) else { return Vec::new() };
    v["findings"]
        .as_array()
        .map(|a| {
            a.iter()
                .filter(|f| f["status"] == "known" && f["property"] == property)
                .filter_map(|f| f["signature"].as_str().map(|s| s.to_string()))
                .collect()
        })
        .unwrap_or_default()
}

/// A harness that serves several properties with one exploration and different oracle sets is
/// started with `--prop <id>`; it reads the selection here (workers inherit it).
pub fn selected_property() -> Option<&'static str> {
    SELECTED_PROPERTY.get().map(|s| s.as_str())
}


/// minimal glob: `*` matches any (possibly empty) substring; everything else is literal
pub fn glob_match(pat: &str, s: &str) -> bool {
    let parts: Vec<&str> = pat.split('*').collect();
    if parts.len() == 1 {
        return pat == s;
    }
    let mut pos = 0usize;
    for (i, p) in parts.iter().enumerate() {
        if i == 0 {
            if !s.starts_with(p) {
                return false;
            }
            pos = p.len();
        } else if i == parts.len() - 1 {
            return s.len() >= pos + p.len() && s[pos..].ends_with(p);
        } else {
            match s[pos..].find(p) {
                Some(j) => pos += j + p.len(),
                None => return false,
            }
        }
    }
    true
}

pub fn machinery_error(msg: &str) -> ! {
    eprintln!("SEQX-MACHINERY-ERROR: {msg}");
    std::process::exit(2);
}

fn tier_budget(t: Tier) -> f64 {
    match t {
        Tier::Quick => 45.0,
        Tier::Thorough => 1200.0,
    }
}

fn panic_message(p: Box<dyn std::any::Any + Send>) -> String {
    if let Some(s) = p.downcast_ref::<&str>() {
        s.to_string()
    } else if let Some(s) = p.downcast_ref::<String>() {
        s.clone()
    } else {
        "panic with non-string payload".to_string()
    }
}

fn guarded<R>(f: impl FnOnce() -> Result<R, Fail>, what: &str) -> Result<R, Fail> {
    match std::panic::catch_unwind(std::panic::AssertUnwindSafe(f)) {
        Ok(r) => r,
        Err(p) => Err(Fail::new("panic", what.to_string(), panic_message(p))),
    }
}

pub fn main<H: Harness>(h: H) -> ! {
    let args = parse_args();
    if args.list {
        for (i, (c, p)) in h.configs(args.tier).iter().enumerate() {
            println!("{i}\t{c:?}\t{p:?}");
        }
        std::process::exit(0);
    }
    if let Some(p) = &args.replay {
        std::process::exit(replay_main(&h, p));
    }
    if let Some((cfg, step, idx)) = &args.decode {
        decode_main(&h, &args, *cfg, *step, idx);
    }
    if let Some((cfg, w, ww)) = args.job {
        worker_main(&h, &args, cfg, w, ww);
    }
    std::process::exit(parent_main(&h, &args));
}

struct Run<'a, H: Harness> {
    h: &'a H,
    cfg_idx: usize,
    cfg: &'a H::Cfg,
    out: &'a mut WorkerOut,
    keys: HashSet<u64>,
    deadline: Instant,
    max_viol: usize,
    known: Vec<String>,
    /// violations that are not listed as known findings (only these count towards max_viol)
    unlisted: usize,
    seen_known: HashSet<String>,
}

impl<H: Harness> Run<'_, H> {
    fn record_state(&mut self, sys: &H::Sys) {
        if self.h.nontrivial(sys) {
            self.keys.insert(self.h.model_key(sys));
        }
    }

    fn violation(&mut self, ops: &[H::Op], f: Fail, mode: &str) {
        let sig = format!("{}|{}|{}", self.h.name(), f.tag, f.site);
        if self.known.iter().any(|g| glob_match(g, &sig)) {
            // a known finding: keep one (the first) witness per signature, do not stop for it
            if !self.seen_known.insert(sig) {
                self.out.known_repeats += 1;
                return;
            }
        } else {
            self.unlisted += 1;
        }
        self.out.violations.push(ViolationOut {
            cfg_idx: self.cfg_idx,
            cfg: serde_json::to_value(self.cfg).unwrap(),
            ops: ops.iter().map(|o| serde_json::to_value(o).unwrap()).collect(),
            tag: f.tag,
            site: f.site,
            detail: f.detail,
            mode: mode.into(),
        });
    }

    /// Runs one execution following `idx` (indices into the enabled lists); after the prefix is
    /// used up continues with index 0 up to `depth` if `extend`. Returns the branching factors
    /// seen at every step, the number of steps actually applied, and whether it failed.
    fn execute(&mut self, idx: &[u32], depth: usize, extend: bool, mode: &str) -> (Vec<u32>, bool, Option<u64>, u32) {
        set_current(self.cfg_idx, idx);
        self.out.executions += 1;
        let mut branching: Vec<u32> = Vec::with_capacity(depth);
        let mut ops: Vec<H::Op> = Vec::with_capacity(depth);
        let h = self.h;
        let cfg = self.cfg;
        let mut sys = match guarded(|| h.new_sys(cfg), "new_sys") {
            Ok(s) => s,
            Err(f) => {
                self.violation(&ops, f, mode);
                return (branching, true, None, 0);
            }
        };
        let mut step = 0usize;
        while step < depth {
            let en = h.enabled(&sys);
            if en.is_empty() {
                break;
            }
            let choice = if step < idx.len() {
                idx[step] as usize
            } else if extend {
                0
            } else {
                break;
            };
            if choice >= en.len() {
                machinery_error(&format!(
                    "divergence: choice {choice} at step {step} but only {} operations enabled (cfg {:?})",
                    en.len(),
                    self.cfg
                ));
            }
            branching.push(en.len() as u32);
            self.out.max_branching = self.out.max_branching.max(en.len() as u64);
            let op = en[choice].clone();
            ops.push(op.clone());
            CUR_STEP.store(step as u32, Ordering::Relaxed);
            self.out.steps += 1;
            if let Err(f) = guarded(|| h.apply(&mut sys, &op), "apply") {
                self.violation(&ops, f, mode);
                // the object graph may be corrupt: abandon it without running destructors twice
                let _ = std::panic::catch_unwind(std::panic::AssertUnwindSafe(move || drop(sys)));
                return (branching, true, None, 0);
            }
            self.record_state(&sys);
            step += 1;
        }
        let key = h.model_key(&sys);
        let next_n = if step < depth { h.enabled(&sys).len() as u32 } else { 0 };
        if let Err(f) = guarded(|| h.finish(sys), "finish") {
            self.violation(&ops, f, mode);
            return (branching, true, Some(key), 0);
        }
        let n = self.out.executions;
        if self.out.samples.len() < 3 && (n == 1 || n == 1000 || n == 100_000) {
            self.out.samples.push(json!({
                "cfg": serde_json::to_value(self.cfg).unwrap(),
                "ops": ops.iter().map(|o| format!("{o:?}")).collect::<Vec<_>>(),
            }));
        }
        (branching, false, Some(key), next_n)
    }

    fn tree(&mut self, plan: &Plan, w: u32, ww: u32) {
        let depth = plan.tree_depth;
        if depth == 0 {
            self.out.tree_complete = true;
            return;
        }
        let b0 = self.peek_enabled(&[]).unwrap_or(0) as u32;
        if w == 0 && (plan.finish_prefixes || b0 == 0) {
            self.execute(&[], depth, false, "tree");
        }
        for first in (0..b0).filter(|f| f % ww == w) {
            let mut path: Vec<u32> = vec![first];
            let mut counts: Vec<u32> = vec![b0];
            'subtree: loop {
                if Instant::now() > self.deadline {
                    self.out.timed_out = true;
                    return;
                }
                if self.unlisted >= self.max_viol {
                    return;
                }
                if plan.finish_prefixes {
                    // every prefix is an execution of its own (pre-order)
                    let (_, failed, _, next_n) = self.execute(&path, depth, false, "tree");
                    if !failed && path.len() < depth && next_n > 0 {
                        path.push(0);
                        counts.push(next_n);
                        continue;
                    }
                } else {
                    // only maximal sequences are executed; the prefix is extended by choice 0
                    let (b, _failed, _, _) = self.execute(&path, depth, true, "tree");
                    if b.is_empty() {
                        return;
                    }
                    path.truncate(b.len());
                    while path.len() < b.len() {
                        path.push(0);
                    }
                    counts = b;
                }
                // backtrack to the deepest position with an untried alternative (not below 0)
                loop {
                    let last = path.len() - 1;
                    if last == 0 {
                        break 'subtree;
                    }
                    if path[last] + 1 < counts[last] {
                        path[last] += 1;
                        break;
                    }
                    path.pop();
                    counts.pop();
                }
            }
        }
        self.out.tree_complete = !self.out.timed_out;
    }

    /// number of enabled operations after executing `idx` (without counting it as an execution)
    fn peek_enabled(&mut self, idx: &[u32]) -> Option<usize> {
        let h = self.h;
        let cfg = self.cfg;
        let r = guarded(
            || {
                let mut sys = h.new_sys(cfg)?;
                for &i in idx {
                    let en = h.enabled(&sys);
                    if i as usize >= en.len() {
                        return Ok(0);
                    }
                    h.apply(&mut sys, &en[i as usize])?;
                }
                let n = h.enabled(&sys).len();
                let _ = h.finish(sys);
                Ok(n)
            },
            "peek",
        );
        r.ok()
    }

    fn frontier(&mut self, max_states: usize, max_depth: usize) {
        let mut seen: HashSet<u64> = HashSet::new();
        let mut queue: VecDeque<Vec<u32>> = VecDeque::new();
        queue.push_back(Vec::new());
        // key of the initial state
        if let (_, false, Some(k), _) = self.execute(&[], 0, false, "frontier") {
            seen.insert(k);
        }
        self.out.frontier_complete = true;
        while let Some(hist) = queue.pop_front() {
            if Instant::now() > self.deadline {
                self.out.timed_out = true;
                self.out.frontier_complete = false;
                break;
            }
            if self.unlisted >= self.max_viol {
                self.out.frontier_complete = false;
                break;
            }
            let n = match self.peek_enabled(&hist) {
                Some(n) => n,
                None => continue,
            };
            for a in 0..n as u32 {
                let mut e = hist.clone();
                e.push(a);
                self.out.frontier_executions += 1;
                let (_, failed, key, _) = self.execute(&e, e.len(), false, "frontier");
                if failed {
                    continue;
                }
                if let Some(k) = key {
                    if seen.insert(k) {
                        self.out.frontier_max_depth = self.out.frontier_max_depth.max(e.len() as u64);
                        if seen.len() >= max_states {
                            self.out.frontier_complete = false;
                        } else if e.len() < max_depth {
                            queue.push_back(e);
                        } else {
                            self.out.frontier_complete = false;
                        }
                    }
                }
            }
            if seen.len() >= max_states {
                break;
            }
        }
        self.out.frontier_states = seen.len() as u64;
    }
}

fn worker_main<H: Harness>(h: &H, args: &Args, cfg_idx: usize, w: u32, ww: u32) -> ! {
    let out_path = args.out.clone().expect("--out");
    install_crash_capture(&out_path.with_extension("crash"));
    std::panic::set_hook(Box::new(|_| {}));
    let configs = h.configs(args.tier);
    let (cfg, plan) = &configs[cfg_idx];
    let budget = args.budget.unwrap_or_else(|| tier_budget(args.tier));
    let mut out = WorkerOut { cfg_idx, w, ..Default::default() };
    {
        let mut run = Run {
            h,
            cfg_idx,
            cfg,
            out: &mut out,
            keys: HashSet::new(),
            deadline: Instant::now() + Duration::from_secs_f64(budget),
            max_viol: h.max_violations_per_worker(),
            known: known_signatures(h.property()),
            unlisted: 0,
            seen_known: HashSet::new(),
        };
        run.tree(plan, w, ww);
        if let (Some((ms, md)), 0) = (plan.frontier, w) {
            run.frontier(ms, md);
        } else {
            run.out.frontier_complete = true;
        }
        let mut keys: Vec<u64> = run.keys.iter().copied().collect();
        keys.sort_unstable();
        keys.truncate(2_000_000);
        run.out.keys = keys;
    }
    std::fs::write(&out_path, serde_json::to_vec(&out).unwrap()).unwrap();
    let _ = std::fs::remove_file(out_path.with_extension("crash"));
    unsafe { libc::_exit(0) }
}

fn decode_main<H: Harness>(h: &H, args: &Args, cfg_idx: usize, step: usize, idx: &[u32]) -> ! {
    std::panic::set_hook(Box::new(|_| {}));
    let configs = h.configs(args.tier);
    let (cfg, _) = &configs[cfg_idx];
    let mut ops: Vec<Value> = Vec::new();
    let r = guarded(
        || {
            let mut sys = h.new_sys(cfg)?;
            for (k, &i) in idx.iter().enumerate() {
                let en = h.enabled(&sys);
                if i as usize >= en.len() {
                    break;
                }
                ops.push(serde_json::to_value(&en[i as usize]).unwrap());
                if k >= step {
                    break;
                }
                h.apply(&mut sys, &en[i as usize])?;
            }
            std::mem::forget(sys);
            Ok(())
        },
        "decode",
    );
    let _ = r;
    println!("{}", json!({"cfg": serde_json::to_value(cfg).unwrap(), "ops": ops}));
    unsafe { libc::_exit(0) }
}

fn replay_main<H: Harness>(h: &H, path: &Path) -> i32 {
    let txt = match std::fs::read_to_string(path) {
        Ok(t) => t,
        Err(e) => machinery_error(&format!("cannot read replay file {}: {e}", path.display())),
    };
    let rf: ReplayFile = match serde_json::from_str(&txt) {
        Ok(r) => r,
        Err(e) => machinery_error(&format!("bad replay file: {e}")),
    };
    if rf.harness != h.name() {
        machinery_error(&format!("replay file is for harness {}, this is {}", rf.harness, h.name()));
    }
    let cfg: H::Cfg = match serde_json::from_value(rf.cfg.clone()) {
        Ok(c) => c,
        Err(e) => machinery_error(&format!("bad cfg in replay file: {e}")),
    };
    println!("replay of {} cfg {:?}", h.name(), cfg);
    let mut sys = match guarded(|| h.new_sys(&cfg), "new_sys") {
        Ok(s) => s,
        Err(f) => {
            println!("REPLAY-RESULT: failure {}|{}: {}", f.tag, f.site, f.detail);
            return 1;
        }
    };
    for (i, v) in rf.ops.iter().enumerate() {
        let op: H::Op = match serde_json::from_value(v.clone()) {
            Ok(o) => o,
            Err(e) => machinery_error(&format!("bad op in replay file: {e}")),
        };
        println!("  step {i}: {op:?}");
        let _ = std::io::stdout().flush();
        if let Err(f) = guarded(|| h.apply(&mut sys, &op), "apply") {
            println!("REPLAY-RESULT: failure {}|{}: {}", f.tag, f.site, f.detail);
            std::mem::forget(sys);
            return 1;
        }
    }
    if let Err(f) = guarded(|| h.finish(sys), "finish") {
        println!("REPLAY-RESULT: failure {}|{}: {}", f.tag, f.site, f.detail);
        return 1;
    }
    println!("REPLAY-RESULT: no failure");
    0
}

struct Running {
    child: Child,
    cfg_idx: usize,
    w: u32,
    out: PathBuf,
}

fn parent_main<H: Harness>(h: &H, args: &Args) -> i32 {
    let t0 = Instant::now();
    let exe = std::env::current_exe().unwrap();
    let scratch = PathBuf::from(format!("/verif/.run/seqx-{}-{}", h.name(), std::process::id()));
    std::fs::create_dir_all(&scratch).unwrap();
    let configs = h.configs(args.tier);
    let budget = args.budget.unwrap_or_else(|| tier_budget(args.tier));
    let mut queue: VecDeque<(usize, u32, u32)> = VecDeque::new();
    for (i, (_, p)) in configs.iter().enumerate() {
        if args.only.map(|o| o != i).unwrap_or(false) {
            continue;
        }
        let ww = p.split.max(1);
        for w in 0..ww {
            queue.push_back((i, w, ww));
        }
    }
    let njobs = queue.len();
    let mut running: Vec<Running> = Vec::new();
    let mut outs: Vec<WorkerOut> = Vec::new();
    let mut machinery: Vec<String> = Vec::new();
    let mut crash_violations: Vec<ViolationOut> = Vec::new();
    while !queue.is_empty() || !running.is_empty() {
        while running.len() < args.jobs && !queue.is_empty() {
            let (ci, w, ww) = queue.pop_front().unwrap();
            let out = scratch.join(format!("c{ci}_w{w}.json"));
            let mut cmd = Command::new(&exe);
            cmd.arg("--job").arg(ci.to_string()).arg(w.to_string()).arg(ww.to_string());
            cmd.arg("--tier").arg(&args.tier_s).arg("--out").arg(&out).arg("--budget").arg(budget.to_string());
            if let Some(p) = selected_property() {
                cmd.arg("--prop").arg(p);
            }
            if let Some(k) = KNOWN_FILE.get() {
                cmd.arg("--known-file").arg(k);
            }
            cmd.stdin(Stdio::null());
            match cmd.spawn() {
                Ok(child) => running.push(Running { child, cfg_idx: ci, w, out }),
                Err(e) => machinery.push(format!("cannot spawn worker: {e}")),
            }
        }
        let mut finished: Vec<usize> = Vec::new();
        for (i, r) in running.iter_mut().enumerate() {
            if let Ok(Some(_)) = r.child.try_wait() {
                finished.push(i);
            }
        }
        if finished.is_empty() {
            std::thread::sleep(Duration::from_millis(10));
            continue;
        }
        for &i in finished.iter().rev() {
            let mut r = running.remove(i);
            let st = r.child.wait().ok();
            let data = std::fs::read(&r.out).ok();
            match data.and_then(|d| serde_json::from_slice::<WorkerOut>(&d).ok()) {
                Some(w) => outs.push(w),
                None => {
                    // crashed: decode the captured sequence
                    let crash = std::fs::read(r.out.with_extension("crash")).unwrap_or_default();
                    if crash.len() >= 7 {
                        let sig = crash[0];
                        let step = crash[5] as usize;
                        let n = crash[6] as usize;
                        let idx: Vec<String> = crash[7..7 + n.min(crash.len() - 7)].iter().map(|b| b.to_string()).collect();
                        let mut dc = Command::new(&exe);
                        if let Some(p) = selected_property() {
                            dc.arg("--prop").arg(p);
                        }
                        let o = dc
                            .arg("--tier")
                            .arg(&args.tier_s)
                            .arg("--decode")
                            .arg(r.cfg_idx.to_string())
                            .arg(step.to_string())
                            .arg(idx.join(","))
                            .output();
                        let decoded: Option<Value> = o.ok().and_then(|o| {
                            String::from_utf8_lossy(&o.stdout).lines().last().and_then(|l| serde_json::from_str(l).ok())
                        });
                        match decoded {
                            Some(d) => crash_violations.push(ViolationOut {
                                cfg_idx: r.cfg_idx,
                                cfg: d["cfg"].clone(),
                                ops: d["ops"].as_array().cloned().unwrap_or_default(),
                                tag: "crash".into(),
                                site: format!("signal {sig}"),
                                detail: format!("the process died with signal {sig} while applying the last listed operation"),
                                mode: "tree".into(),
                            }),
                            None => machinery.push(format!("worker for cfg {} crashed (signal {sig}) and the sequence could not be decoded", r.cfg_idx)),
                        }
                    } else {
                        machinery.push(format!("worker for cfg {} (part {}) ended without a result (status {:?})", r.cfg_idx, r.w, st));
                    }
                }
            }
        }
    }

    // ---- merge
    let mut executions = 0u64;
    let mut steps = 0u64;
    let mut fr_exec = 0u64;
    let mut fr_states = 0u64;
    let mut fr_depth = 0u64;
    let mut all_tree_complete = outs.len() == njobs;
    let mut all_frontier_complete = true;
    let mut samples: Vec<Value> = Vec::new();
    let mut per_cfg_keys: BTreeMap<usize, HashSet<u64>> = BTreeMap::new();
    let mut violations: Vec<ViolationOut> = crash_violations;
    let mut max_branching = 0u64;
    for o in &outs {
        executions += o.executions;
        steps += o.steps;
        fr_exec += o.frontier_executions;
        fr_states += o.frontier_states;
        fr_depth = fr_depth.max(o.frontier_max_depth);
        all_tree_complete &= o.tree_complete;
        all_frontier_complete &= o.frontier_complete;
        max_branching = max_branching.max(o.max_branching);
        let e = per_cfg_keys.entry(o.cfg_idx).or_default();
        for k in &o.keys {
            e.insert(*k);
        }
        if samples.len() < 5 {
            samples.extend(o.samples.iter().take(1).cloned());
        }
        violations.extend(o.violations.iter().cloned());
    }
    // middle / last samples
    if let Some(o) = outs.last() {
        if let Some(s) = o.samples.last() {
            samples.push(s.clone());
        }
    }
    let distinct: u64 = per_cfg_keys.values().map(|s| s.len() as u64).sum();
    let depths: Vec<usize> = configs.iter().map(|(_, p)| p.tree_depth).collect();

    // ---- violations: group by signature, write one replay per signature, confirm it twice
    let mut by_sig: BTreeMap<String, Vec<&ViolationOut>> = BTreeMap::new();
    for v in &violations {
        by_sig.entry(format!("{}|{}|{}", h.name(), v.tag, v.site)).or_default().push(v);
    }
    let mut violations_json: Vec<Value> = Vec::new();
    for (sig, vs) in &by_sig {
        // shortest witness
        let v = vs.iter().min_by_key(|v| v.ops.len()).unwrap();
        let dir = args.replays.join(h.property());
        let _ = std::fs::create_dir_all(&dir);
        let mut n = 0;
        let path = loop {
            let p = dir.join(format!("{}_{n}.json", h.name()));
            if !p.exists() {
                break p;
            }
            n += 1;
        };
        let rf = ReplayFile {
            engine: "seqx".into(),
            harness: h.name().into(),
            property: h.property().into(),
            cfg: v.cfg.clone(),
            ops: v.ops.clone(),
            tag: v.tag.clone(),
            site: v.site.clone(),
            detail: v.detail.clone(),
        };
        std::fs::write(&path, serde_json::to_vec_pretty(&rf).unwrap()).unwrap();
        let mut results = Vec::new();
        for _ in 0..2 {
            let mut rc = Command::new(&exe);
            if let Some(p) = selected_property() {
                rc.arg("--prop").arg(p);
            }
            match rc.arg("--replay").arg(&path).output() {
                Ok(o) => {
                    let s = String::from_utf8_lossy(&o.stdout).to_string();
                    let res = s.lines().find(|l| l.starts_with("REPLAY-RESULT:")).unwrap_or("").to_string();
                    use std::os::unix::process::ExitStatusExt;
                    results.push((o.status.code(), o.status.signal(), strip_numbers(&res)));
                }
                Err(e) => machinery.push(format!("cannot run replay: {e}")),
            }
        }
        let reproduced = results.len() == 2
            && results[0] == results[1]
            && (results[0].0 == Some(1) || results[0].1.is_some() || results[0].0 == Some(70));
        if reproduced {
            violations_json.push(json!({
                "harness": h.name(), "case": v.cfg.to_string(), "kind": v.tag, "message": format!("{} [{}]: {}", v.tag, v.site, v.detail),
                "replay": path, "signature": sig, "witnesses": vs.len(), "ops": v.ops,
            }));
        } else {
            machinery.push(format!(
                "violation {sig} did not reproduce identically from its replay file {} ({results:?})",
                path.display()
            ));
        }
    }
    let part = json!({
        "engine": "seqx",
        "harness": h.name(),
        "property": h.property(),
        "tier": args.tier_s,
        "rule": h.rule(),
        "evaluations": executions,
        "steps": steps,
        "distinct_nontrivial": distinct,
        "configurations": configs.len(),
        "tree_depth_min": depths.iter().min(),
        "tree_depth_max": depths.iter().max(),
        "max_branching": max_branching,
        "exhaustive": all_tree_complete && machinery.is_empty(),
        "frontier": {"executions": fr_exec, "distinct_model_states": fr_states, "max_depth": fr_depth, "complete": all_frontier_complete},
        "traces_validated_against_impl": executions,
        "samples": samples,
        "violations": violations_json,
        "machinery_errors": machinery,
        "wall_s": t0.elapsed().as_secs_f64(),
    });
    if let Some(out) = &args.out {
        std::fs::write(out, serde_json::to_vec_pretty(&part).unwrap()).unwrap();
    } else {
        println!("{}", serde_json::to_string_pretty(&part).unwrap());
    }
    let _ = std::fs::remove_dir_all(&scratch);
    for m in &machinery {
        eprintln!("MACHINERY: {m}");
    }
    if !violations_json.is_empty() {
        1
    } else if !machinery.is_empty() {
        2
    } else {
        0
    }
}

fn strip_numbers(s: &str) -> String {
    // addresses differ between processes; keep the shape of the message only
    let mut out = String::new();
    let mut chars = s.chars().peekable();
    while let Some(c) = chars.next() {
        if c == '0' && chars.peek() == Some(&'x') {
            chars.next();
            while chars.peek().map(|c| c.is_ascii_hexdigit()).unwrap_or(false) {
                chars.next();
            }
            out.push_str("0x#");
        } else {
            out.push(c);
        }
    }
    out
}
