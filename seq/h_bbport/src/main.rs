//! C12, port level (sequential leg): blackboard Writer / Reader / entry handles on a `local`
//! service.  All histories up to a depth of: create / drop writer, create / drop write handle per
//! key, update (copy and loan style, incl. discarded loans), create reader, read.
//!
//! Oracle: at most one writer port and one write handle per key at a time – a second one is
//! refused with the documented error and the first one still works; a reader always obtains the
//! last written value of the key (in one piece: the value is an array whose words all carry the
//! version) and never an older one than it has seen.

use iceoryx2::port::reader::Reader;
use iceoryx2::port::writer::{EntryHandleMut, EntryHandleMutError, Writer, WriterCreateError};
use iceoryx2::prelude::*;
use iceoryx2::service::port_factory::blackboard::PortFactory;
use seqx::{ensure, Fail, Harness, Plan, Tier};
use serde::{Deserialize, Serialize};

type Svc = local::Service;
type Val = [u64; 5];

static COUNTER: std::sync::atomic::AtomicU64 = std::sync::atomic::AtomicU64::new(0);

#[derive(Clone, Debug, Serialize, Deserialize)]
struct Cfg {
    keys: usize,
    readers: usize,
}

#[derive(Clone, Debug, Serialize, Deserialize)]
enum Op {
    CreateWriter,
    /// a second writer while one exists: must be refused
    CreateSecondWriter,
    DropWriter,
    OpenHandle(usize),
    /// a second write handle for a key that already has one: must be refused
    OpenSecondHandle(usize),
    DropHandle(usize),
    UpdateCopy(usize),
    UpdateLoan(usize),
    LoanAndDiscard(usize),
    Read(usize, usize),
}

struct Sys {
    _node: Node<Svc>,
    service: PortFactory<Svc, u64>,
    writer: Option<Writer<Svc, u64>>,
    handles: Vec<Option<EntryHandleMut<Svc, u64, Val>>>,
    readers: Vec<Reader<Svc, u64>>,
    // model
    version: Vec<u64>,
    seen: Vec<Vec<u64>>,
    next: u64,
    keys: usize,
}

fn val(v: u64) -> Val {
    [v; 5]
}

struct H;

impl Harness for H {
    type Cfg = Cfg;
    type Op = Op;
    type Sys = Sys;
    fn name(&self) -> &'static str {
        "h_bbport"
    }
    fn property(&self) -> &'static str {
        "C12"
    }
    fn rule(&self) -> String {
        "one configuration = (number of keys, number of readers); every sequence of {create/second/drop writer, open/second/drop write handle per key, update by copy / by loan / discarded loan, read by reader r of key k} up to the depth on a local blackboard service; a state is distinct by (writer exists, handles open, version per key, what each reader saw last)".into()
    }
    fn configs(&self, tier: Tier) -> Vec<(Cfg, Plan)> {
        let d = if tier == Tier::Quick { 6 } else { 7 };
        vec![
            (Cfg { keys: 1, readers: 1 }, Plan { tree_depth: d + 1, finish_prefixes: false, frontier: Some((3000, 12)), split: 4 }),
            (Cfg { keys: 2, readers: 1 }, Plan { tree_depth: d, finish_prefixes: false, frontier: Some((3000, 10)), split: 8 }),
            (Cfg { keys: 1, readers: 2 }, Plan { tree_depth: d, finish_prefixes: false, frontier: None, split: 4 }),
        ]
    }
    fn new_sys(&self, cfg: &Cfg) -> Result<Sys, Fail> {
        set_log_level(LogLevel::Fatal);
        let n = COUNTER.fetch_add(1, std::sync::atomic::Ordering::Relaxed);
        let mut config = Config::default();
        config.global.node.cleanup_dead_nodes_on_creation = false;
        config.global.node.cleanup_dead_nodes_on_destruction = false;
        let node = NodeBuilder::new().config(&config).create::<Svc>().map_err(|e| Fail::new("setup", "node", format!("{e:?}")))?;
        let name = ServiceName::new(&format!("hbbport_{}_{}", std::process::id(), n)).unwrap();
        let mut b = node.service_builder(&name).blackboard_creator::<u64>().max_readers(cfg.readers + 1);
        for k in 0..cfg.keys {
            b = b.add::<Val>(k as u64, val(0));
        }
        let service = b.create().map_err(|e| Fail::new("setup", "service", format!("{e:?}")))?;
        let mut readers = Vec::new();
        for _ in 0..cfg.readers {
            readers.push(service.reader_builder().create().map_err(|e| Fail::new("setup", "reader", format!("{e:?}")))?);
        }
        Ok(Sys {
            _node: node,
            service,
            writer: None,
            handles: (0..cfg.keys).map(|_| None).collect(),
            readers,
            version: vec![0; cfg.keys],
            seen: vec![vec![0; cfg.keys]; cfg.readers],
            next: 1,
            keys: cfg.keys,
        })
    }
    fn enabled(&self, s: &Sys) -> Vec<Op> {
        let mut v = Vec::new();
        if s.writer.is_none() {
            v.push(Op::CreateWriter);
        } else {
            v.push(Op::CreateSecondWriter);
            if s.handles.iter().all(|h| h.is_none()) {
                v.push(Op::DropWriter);
            }
            for k in 0..s.keys {
                if s.handles[k].is_none() {
                    v.push(Op::OpenHandle(k));
                } else {
                    v.push(Op::UpdateCopy(k));
                    v.push(Op::UpdateLoan(k));
                    v.push(Op::LoanAndDiscard(k));
                    v.push(Op::OpenSecondHandle(k));
                    v.push(Op::DropHandle(k));
                }
            }
        }
        for r in 0..s.readers.len() {
            for k in 0..s.keys {
                v.push(Op::Read(r, k));
            }
        }
        v
    }
    fn apply(&self, s: &mut Sys, op: &Op) -> Result<(), Fail> {
        match op {
            Op::CreateWriter => {
                let w = s.service.writer_builder().create();
                ensure!(w.is_ok(), "writer-refused", "writer_builder().create() without an existing writer", "{:?}", w.as_ref().err());
                s.writer = w.ok();
            }
            Op::CreateSecondWriter => {
                let w = s.service.writer_builder().create();
                match w {
                    Err(WriterCreateError::ExceedsMaxSupportedWriters) => {}
                    Err(e) => return Err(Fail::new("second-writer-wrong-error", "writer_builder().create() with an existing writer", format!("{e:?}"))),
                    Ok(_) => return Err(Fail::new("second-writer-accepted", "writer_builder().create() with an existing writer", "a second writer port was created".to_string())),
                }
            }
            Op::DropWriter => {
                s.writer = None;
            }
            Op::OpenHandle(k) => {
                let h = s.writer.as_ref().unwrap().entry::<Val>(&(*k as u64));
                ensure!(h.is_ok(), "handle-refused", "Writer::entry for a key without a write handle", "key {}: {:?}", k, h.as_ref().err());
                s.handles[*k] = h.ok();
            }
            Op::OpenSecondHandle(k) => {
                let h = s.writer.as_ref().unwrap().entry::<Val>(&(*k as u64));
                match h {
                    Err(EntryHandleMutError::HandleAlreadyExists) => {}
                    Err(e) => return Err(Fail::new("second-handle-wrong-error", "Writer::entry for a key with a live write handle", format!("{e:?}"))),
                    Ok(_) => return Err(Fail::new("second-handle-accepted", "Writer::entry for a key with a live write handle", format!("key {k}: a second write handle was handed out"))),
                }
            }
            Op::DropHandle(k) => {
                s.handles[*k] = None;
            }
            Op::UpdateCopy(k) => {
                let v = s.next;
                s.next += 1;
                s.handles[*k].as_ref().unwrap().update_with_copy(val(v));
                s.version[*k] = v;
            }
            Op::UpdateLoan(k) => {
                let v = s.next;
                s.next += 1;
                let h = s.handles[*k].take().unwrap();
                let uninit = h.loan_uninit();
                s.handles[*k] = Some(uninit.update_with_copy(val(v)));
                s.version[*k] = v;
            }
            Op::LoanAndDiscard(k) => {
                let h = s.handles[*k].take().unwrap();
                let uninit = h.loan_uninit();
                s.handles[*k] = Some(uninit.discard());
            }
            Op::Read(r, k) => {
                let e = s.readers[*r].entry::<Val>(&(*k as u64));
                ensure!(e.is_ok(), "read-refused", "Reader::entry", "{:?}", e.as_ref().err());
                let got = *e.unwrap().get();
                ensure!(got.iter().all(|w| *w == got[0]), "torn-value", "EntryHandle::get", "reader {} key {}: {:?}", r, k, got);
                ensure!(got[0] == s.version[*k], "stale-or-wrong-value", "EntryHandle::get", "reader {} key {}: read version {} but the last written version is {}", r, k, got[0], s.version[*k]);
                ensure!(got[0] >= s.seen[*r][*k], "value-went-back", "EntryHandle::get", "reader {} key {}: {} after {}", r, k, got[0], s.seen[*r][*k]);
                s.seen[*r][*k] = got[0];
            }
        }
        Ok(())
    }
    fn finish(&self, mut s: Sys) -> Result<(), Fail> {
        // the first writer / handle must have stayed usable whatever was refused in between
        for k in 0..s.keys {
            if let Some(h) = &s.handles[k] {
                h.update_with_copy(val(9999));
                let got = *s.readers[0].entry::<Val>(&(k as u64)).map_err(|e| Fail::new("read-refused", "Reader::entry", format!("{e:?}")))?.get();
                ensure!(got == val(9999), "first-handle-disturbed", "update through the first write handle at the end", "key {}: read {:?}", k, got);
            }
        }
        s.handles.clear();
        s.writer = None;
        let w = s.service.writer_builder().create();
        ensure!(w.is_ok(), "writer-slot-leaked", "writer_builder().create() after everything was dropped", "{:?}", w.as_ref().err());
        Ok(())
    }
    fn model_key(&self, s: &Sys) -> u64 {
        let open: Vec<bool> = s.handles.iter().map(|h| h.is_some()).collect();
        // versions relative to the order they were written in (the absolute counter is irrelevant)
        let mut order: Vec<u64> = s.version.clone();
        order.sort();
        let rank = |v: u64| order.iter().position(|x| *x == v).unwrap_or(0);
        let ver: Vec<usize> = s.version.iter().map(|v| rank(*v)).collect();
        let fresh: Vec<Vec<bool>> = s.seen.iter().map(|r| r.iter().zip(s.version.iter()).map(|(a, b)| a == b).collect()).collect();
        seqx::hash_of(&(s.writer.is_some(), open, ver, fresh))
    }
}

fn main() {
    seqx::main(H);
}
