//! Scenario code shared by the E2 victim (`crash_child`) and survivor (`crash_survivor`)
//! programs (DESIGN.md §3.2).  Everything runs in an isolated domain: its own root path and
//! prefix, given on the command line, so that files and /dev/shm objects are attributable.
//!
//! victim:   node → service (create or open) → port → a little traffic → orderly drop of all
//! survivor: line protocol on stdin/stdout
//!     (start)  creates a node, optionally the service and the peer port;  prints READY
//!     PROBE    lists nodes, prints `PROBE alive=<n> dead=<n> undefined=<n> inaccessible=<n>`
//!     CHECK    dead-node cleanup, exercises its ports with a fresh peer, drops everything,
//!              prints `REPORT {json}` and exits

#![allow(dead_code)]

use core::time::Duration;
use iceoryx2::node::NodeView;
use iceoryx2::prelude::*;
use iceoryx2::service::Service as ServiceTrait;

pub type Svc = ipc::Service;

#[derive(Clone, Copy, Debug, PartialEq, Eq)]
pub enum Pattern {
    PubSub,
    Event,
    ReqRes,
    Blackboard,
}

/// A = the sending side (publisher / notifier / client / writer), B = the receiving side
#[derive(Clone, Copy, Debug, PartialEq, Eq)]
pub enum Role {
    A,
    B,
}

impl Role {
    pub fn other(self) -> Role {
        if self == Role::A {
            Role::B
        } else {
            Role::A
        }
    }
}

#[derive(Clone, Debug)]
pub struct Env {
    pub root: String,
    pub prefix: String,
    pub service: String,
    pub pattern: Pattern,
    /// role of the VICTIM's port
    pub role: Role,
    /// survivor does not take part in the service: the victim is its only user
    pub solo: bool,
}

pub fn parse_env(a: &[String]) -> Env {
    // <pattern> <role> <solo|shared> <root> <prefix> <service>
    let pattern = match a[0].as_str() {
        "pubsub" => Pattern::PubSub,
        "event" => Pattern::Event,
        "reqres" => Pattern::ReqRes,
        "blackboard" => Pattern::Blackboard,
        x => panic!("unknown pattern {x}"),
    };
    let role = if a[1] == "A" { Role::A } else { Role::B };
    Env {
        pattern,
        role,
        solo: a[2] == "solo",
        root: a[3].clone(),
        prefix: a[4].clone(),
        service: a[5].clone(),
    }
}

pub fn config(env: &Env) -> Config {
    let mut c = Config::default();
    c.global.set_root_path(&Path::new(env.root.as_bytes()).expect("root path"));
    c.global.prefix = FileName::new(env.prefix.as_bytes()).expect("prefix");
    // the checks call cleanup explicitly, so that its result can be observed
    c.global.node.cleanup_dead_nodes_on_creation = false;
    c.global.node.cleanup_dead_nodes_on_destruction = false;
    c.global.service.cleanup_dead_nodes_on_open = false;
    c.global.creation_timeout = Duration::from_millis(500);
    c
}

pub fn service_name(env: &Env) -> ServiceName {
    ServiceName::new(&env.service).expect("service name")
}

/// When started as root, continue as an unprivileged user: root bypasses file permissions, and
/// iceoryx2 uses permissions as part of its creation protocol (write-only while initialising).
pub fn drop_privileges() {
    unsafe {
        if libc::geteuid() == 0 {
            libc::setgroups(0, core::ptr::null());
            libc::setgid(65534);
            libc::setuid(65534);
        }
    }
}

/// phases of the victim, announced with marker(100 + phase)
pub const PHASES: [&str; 8] = ["node-create", "service-open-or-create", "port-create", "traffic", "port-drop", "service-drop", "node-drop", "done"];

/// an invisible marker system call the tracer recognises: write(-1, _, 77|78|100+phase)
pub fn marker(n: usize) {
    if n >= 100 && std::env::var("PTX_PRINT_PHASE").is_ok() {
        // the atomic-operation crash leg cannot be traced: the victim announces its phases itself
        use std::io::Write;
        println!("PHASE {}", n - 100);
        let _ = std::io::stdout().flush();
    }
    unsafe {
        libc::write(-1, b"PTX".as_ptr() as *const libc::c_void, n);
    }
}

pub const KEY: u64 = 7;

/// the port of one side plus what it needs to stay alive
pub enum Port {
    Publisher(iceoryx2::port::publisher::Publisher<Svc, u64, ()>),
    Subscriber(iceoryx2::port::subscriber::Subscriber<Svc, u64, ()>),
    Notifier(iceoryx2::port::notifier::Notifier<Svc>),
    Listener(iceoryx2::port::listener::Listener<Svc>),
    Client(iceoryx2::port::client::Client<Svc, u64, (), u64, ()>),
    Server(iceoryx2::port::server::Server<Svc, u64, (), u64, ()>),
    Writer(iceoryx2::port::writer::Writer<Svc, u64>),
    Reader(iceoryx2::port::reader::Reader<Svc, u64>),
}

pub enum Handle {
    PubSub(iceoryx2::service::port_factory::publish_subscribe::PortFactory<Svc, u64, ()>),
    Event(iceoryx2::service::port_factory::event::PortFactory<Svc>),
    ReqRes(iceoryx2::service::port_factory::request_response::PortFactory<Svc, u64, (), u64, ()>),
    Blackboard(iceoryx2::service::port_factory::blackboard::PortFactory<Svc, u64>),
}

/// `variant` selects the settings (0 = the scenario's, 1 = different ones for "create afresh")
pub fn open_or_create(node: &Node<Svc>, env: &Env, variant: u8) -> Result<Handle, String> {
    let name = service_name(env);
    match env.pattern {
        Pattern::PubSub => node
            .service_builder(&name)
            .publish_subscribe::<u64>()
            .max_publishers(2 + variant as usize)
            .max_subscribers(2)
            .history_size(1)
            .subscriber_max_buffer_size(3)
            .open_or_create()
            .map(Handle::PubSub)
            .map_err(|e| format!("{e:?}")),
        Pattern::Event => node
            .service_builder(&name)
            .event()
            .max_notifiers(2 + variant as usize)
            .max_listeners(2)
            .open_or_create()
            .map(Handle::Event)
            .map_err(|e| format!("{e:?}")),
        Pattern::ReqRes => node
            .service_builder(&name)
            .request_response::<u64, u64>()
            .max_clients(2 + variant as usize)
            .max_servers(2)
            .open_or_create()
            .map(Handle::ReqRes)
            .map_err(|e| format!("{e:?}")),
        Pattern::Blackboard => {
            // a blackboard is created by exactly one side and opened by the others
            let opened = node.service_builder(&name).blackboard_opener::<u64>().open();
            match opened {
                Ok(h) => Ok(Handle::Blackboard(h)),
                Err(_) => node
                    .service_builder(&name)
                    .blackboard_creator::<u64>()
                    .max_readers(2 + variant as usize)
                    .add::<u64>(KEY, 0)
                    .create()
                    .map(Handle::Blackboard)
                    .map_err(|e| format!("{e:?}")),
            }
        }
    }
}

pub fn create_port(h: &Handle, role: Role) -> Result<Port, String> {
    match (h, role) {
        (Handle::PubSub(s), Role::A) => s.publisher_builder().create().map(Port::Publisher).map_err(|e| format!("{e:?}")),
        (Handle::PubSub(s), Role::B) => s.subscriber_builder().create().map(Port::Subscriber).map_err(|e| format!("{e:?}")),
        (Handle::Event(s), Role::A) => s.notifier_builder().create().map(Port::Notifier).map_err(|e| format!("{e:?}")),
        (Handle::Event(s), Role::B) => s.listener_builder().create().map(Port::Listener).map_err(|e| format!("{e:?}")),
        (Handle::ReqRes(s), Role::A) => s.client_builder().create().map(Port::Client).map_err(|e| format!("{e:?}")),
        (Handle::ReqRes(s), Role::B) => s.server_builder().create().map(Port::Server).map_err(|e| format!("{e:?}")),
        (Handle::Blackboard(s), Role::A) => s.writer_builder().create().map(Port::Writer).map_err(|e| format!("{e:?}")),
        (Handle::Blackboard(s), Role::B) => s.reader_builder().create().map(Port::Reader).map_err(|e| format!("{e:?}")),
    }
}

/// values the victim sends; anything a survivor ever receives must be one of the known values
pub const VICTIM_VALUES: [u64; 2] = [1001, 1002];
pub const SURVIVOR_PRE: u64 = 2001;
pub const SURVIVOR_POST: u64 = 3001;

pub fn plausible(v: u64) -> bool {
    VICTIM_VALUES.contains(&v) || v == SURVIVOR_PRE || v == SURVIVOR_POST || v == 0 || v == SURVIVOR_POST + 1
}

/// the sending side emits `values`; errors are returned as text
pub fn emit(port: &Port, values: &[u64]) -> Result<(), String> {
    for &v in values {
        match port {
            Port::Publisher(p) => {
                p.send_copy(v).map_err(|e| format!("send: {e:?}"))?;
            }
            Port::Notifier(n) => {
                n.notify_with_custom_event_id(EventId::new((v % 8) as usize)).map_err(|e| format!("notify: {e:?}"))?;
            }
            Port::Client(c) => {
                // the pending response is dropped right away (fire and forget style)
                let _p = c.send_copy(v).map_err(|e| format!("request: {e:?}"))?;
            }
            Port::Writer(w) => {
                let e = w.entry::<u64>(&KEY).map_err(|e| format!("entry: {e:?}"))?;
                e.update_with_copy(v);
            }
            _ => return Err("emit on a receiving port".into()),
        }
    }
    Ok(())
}

/// the receiving side drains what is there and returns the values (for events: the ids)
pub fn drain(port: &Port) -> Result<Vec<u64>, String> {
    let mut out = Vec::new();
    match port {
        Port::Subscriber(s) => {
            while let Some(sample) = s.receive().map_err(|e| format!("receive: {e:?}"))? {
                out.push(*sample);
            }
        }
        Port::Listener(l) => {
            l.try_wait(|e| out.push(e.id.as_value() as u64)).map_err(|e| format!("try_wait: {e:?}"))?;
        }
        Port::Server(s) => {
            while let Some(req) = s.receive().map_err(|e| format!("receive: {e:?}"))? {
                out.push(*req);
                // answer; the client may be gone, which is a documented outcome
                let _ = req.send_copy(*req + 1);
            }
        }
        Port::Reader(r) => {
            let e = r.entry::<u64>(&KEY).map_err(|e| format!("entry: {e:?}"))?;
            out.push(*e.get());
        }
        _ => return Err("drain on a sending port".into()),
    }
    Ok(out)
}

// ------------------------------------------------------------------------------------------

pub fn victim_main(env: &Env) -> i32 {
    drop_privileges();
    set_log_level(LogLevel::Fatal);
    let cfg = config(env);
    marker(77);
    marker(100);
    let node = match NodeBuilder::new().config(&cfg).create::<Svc>() {
        Ok(n) => n,
        Err(e) => {
            println!("VICTIM-ERROR node {e:?}");
            marker(78);
            return 3;
        }
    };
    marker(101);
    let handle = match open_or_create(&node, env, 0) {
        Ok(h) => h,
        Err(e) => {
            println!("VICTIM-ERROR service {e}");
            marker(78);
            return 3;
        }
    };
    marker(102);
    let port = match create_port(&handle, env.role) {
        Ok(p) => p,
        Err(e) => {
            println!("VICTIM-ERROR port {e}");
            marker(78);
            return 3;
        }
    };
    marker(103);
    let r = match env.role {
        Role::A => emit(&port, &VICTIM_VALUES),
        Role::B => drain(&port).map(|_| ()),
    };
    if let Err(e) = r {
        println!("VICTIM-ERROR traffic {e}");
    }
    marker(104);
    drop(port);
    marker(105);
    drop(handle);
    marker(106);
    drop(node);
    marker(107);
    marker(78);
    0
}

// ------------------------------------------------------------------------------------------

fn count_nodes(cfg: &Config, me: &Node<Svc>) -> Result<(usize, usize, usize, usize), String> {
    let (mut alive, mut dead, mut undef, mut inacc) = (0, 0, 0, 0);
    Node::<Svc>::list(cfg, |s| {
        match &s {
            NodeState::Alive(v) => {
                if v.id() != me.id() {
                    alive += 1
                }
            }
            NodeState::Dead(_) => dead += 1,
            NodeState::Undefined(_) => undef += 1,
            NodeState::Inaccessible(_) => inacc += 1,
        }
        CallbackProgression::Continue
    })
    .map_err(|e| format!("{e:?}"))?;
    Ok((alive, dead, undef, inacc))
}

pub fn survivor_main(env: &Env) -> i32 {
    use std::io::{BufRead, Write};
    drop_privileges();
    set_log_level(if std::env::var("PTX_LOG").is_ok() { LogLevel::Trace } else { LogLevel::Fatal });
    let cfg = config(env);
    let node = NodeBuilder::new().config(&cfg).create::<Svc>().expect("survivor node");
    let mut handle: Option<Handle> = None;
    let mut port: Option<Port> = None;
    if !env.solo {
        let h = open_or_create(&node, env, 0).expect("survivor service");
        let p = create_port(&h, env.role.other()).expect("survivor port");
        if env.role == Role::B && env.pattern != Pattern::Event {
            // the victim is a receiver: give it something to receive
            emit(&p, &[SURVIVOR_PRE]).expect("survivor pre-traffic");
        }
        handle = Some(h);
        port = Some(p);
    }
    println!("READY");
    std::io::stdout().flush().unwrap();
    let stdin = std::io::stdin();
    let mut line = String::new();
    loop {
        line.clear();
        if stdin.lock().read_line(&mut line).unwrap_or(0) == 0 {
            return 4;
        }
        let cmd = line.trim();
        if cmd == "PROBE" {
            match count_nodes(&cfg, &node) {
                Ok((a, d, u, i)) => println!("PROBE alive={a} dead={d} undefined={u} inaccessible={i}"),
                Err(e) => println!("PROBE error={e}"),
            }
            std::io::stdout().flush().unwrap();
        } else if cmd == "CHECK" {
            let report = survivor_check(env, &cfg, &node, &mut handle, &mut port);
            drop(port.take());
            drop(handle.take());
            drop(node);
            println!("REPORT {report}");
            std::io::stdout().flush().unwrap();
            return 0;
        } else if cmd == "QUIT" {
            return 0;
        }
    }
}

fn jstr(s: &str) -> String {
    let mut o = String::from("\"");
    for c in s.chars() {
        match c {
            '"' => o.push_str("\\\""),
            '\\' => o.push_str("\\\\"),
            '\n' => o.push_str("\\n"),
            c if (c as u32) < 0x20 => o.push(' '),
            c => o.push(c),
        }
    }
    o.push('"');
    o
}

/// returns a JSON object; `problems` lists everything that contradicts C04 / C07
fn survivor_check(env: &Env, cfg: &Config, node: &Node<Svc>, handle: &mut Option<Handle>, port: &mut Option<Port>) -> String {
    let mut problems: Vec<String> = Vec::new();
    let mut notes: Vec<String> = Vec::new();
    // 1. the victim is dead: within the creation timeout it must be reported dead or absent
    let deadline = std::time::Instant::now() + cfg.global.creation_timeout + Duration::from_millis(500);
    let mut first = None;
    let (mut alive, mut dead, mut undef, mut inacc);
    loop {
        match count_nodes(cfg, node) {
            Ok(c) => {
                (alive, dead, undef, inacc) = c;
            }
            Err(e) => {
                problems.push(format!("node-list-failed: {e}"));
                (alive, dead, undef, inacc) = (0, 0, 0, 0);
                break;
            }
        }
        if first.is_none() {
            first = Some((alive, dead, undef, inacc));
        }
        if alive == 0 && undef == 0 {
            break;
        }
        if std::time::Instant::now() > deadline {
            break;
        }
        std::thread::sleep(Duration::from_millis(20));
    }
    if alive > 0 {
        problems.push(format!("dead-node-reported-alive: {alive} foreign node(s) still reported alive after the creation timeout"));
    }
    if undef > 0 {
        problems.push(format!("dead-node-reported-undefined: {undef} node(s) in undefined state after the creation timeout"));
    }
    if inacc > 0 {
        problems.push(format!("dead-node-inaccessible: {inacc}"));
    }
    notes.push(format!("first_listing={first:?} final=({alive},{dead},{undef},{inacc})"));
    // 2. cleanup of every dead node through the view API
    let mut views = Vec::new();
    let _ = Node::<Svc>::list(cfg, |s| {
        if let NodeState::Dead(v) = s {
            views.push(v);
        }
        CallbackProgression::Continue
    });
    let mut cleaned = 0;
    for v in views {
        match v.try_remove_stale_resources() {
            Ok(()) => cleaned += 1,
            Err(e) => problems.push(format!("cleanup-failed: try_remove_stale_resources returned {e:?}")),
        }
    }
    notes.push(format!("cleaned={cleaned}"));
    let st = node.try_cleanup_dead_nodes();
    if st.failed_cleanups > 0 {
        problems.push(format!("cleanup-failed: try_cleanup_dead_nodes reports {} failed cleanups", st.failed_cleanups));
    }
    // 3. afterwards nobody else is listed
    match count_nodes(cfg, node) {
        Ok((a, d, u, i)) => {
            if a + d + u + i != 0 {
                problems.push(format!("node-remains-after-cleanup: alive={a} dead={d} undefined={u} inaccessible={i}"));
            }
        }
        Err(e) => problems.push(format!("node-list-failed: {e}")),
    }
    // 4. the service: still usable by the survivor / gone and creatable afresh
    let name = service_name(env);
    let pattern = match env.pattern {
        Pattern::PubSub => MessagingPattern::PublishSubscribe,
        Pattern::Event => MessagingPattern::Event,
        Pattern::ReqRes => MessagingPattern::RequestResponse,
        Pattern::Blackboard => MessagingPattern::Blackboard,
    };
    if env.solo {
        match Svc::does_exist(&name, cfg, pattern) {
            Ok(false) => {}
            Ok(true) => problems.push("service-remains: the victim was the only user but the service still exists after cleanup".into()),
            Err(e) => problems.push(format!("service-remains: does_exist failed with {e:?}")),
        }
        match open_or_create(node, env, 1) {
            Ok(h) => {
                // a fresh pair of ports must work
                match (create_port(&h, Role::A), create_port(&h, Role::B)) {
                    (Ok(a), Ok(b)) => round_trip(&a, &b, env, &mut problems),
                    (a, b) => problems.push(format!(
                        "fresh-service-unusable: ports could not be created: {:?} {:?}",
                        a.err(),
                        b.err()
                    )),
                }
                drop(h);
            }
            Err(e) => problems.push(format!("service-not-creatable-afresh: {e}")),
        }
    } else {
        let h = handle.as_ref().unwrap();
        let own = port.as_ref().unwrap();
        // drain what the victim may have delivered before it died: must be plausible data
        if env.role == Role::A {
            match drain(own) {
                Ok(vs) => {
                    for v in &vs {
                        let ok = if env.pattern == Pattern::Event { *v < 8 } else { plausible(*v) };
                        if !ok {
                            problems.push(format!("corrupted-data: survivor received {v}"));
                        }
                    }
                    notes.push(format!("drained={vs:?}"));
                }
                Err(e) => problems.push(format!("survivor-port-broken: {e}")),
            }
        }
        // a new peer in the role the victim had
        match create_port(h, env.role) {
            Ok(peer) => {
                let (a, b) = if env.role == Role::A { (&peer, own) } else { (own, &peer) };
                round_trip(a, b, env, &mut problems);
            }
            Err(e) => problems.push(format!("new-peer-not-creatable: {e}")),
        }
    }
    format!(
        "{{\"problems\":[{}],\"notes\":[{}]}}",
        problems.iter().map(|p| jstr(p)).collect::<Vec<_>>().join(","),
        notes.iter().map(|p| jstr(p)).collect::<Vec<_>>().join(",")
    )
}

fn round_trip(a: &Port, b: &Port, env: &Env, problems: &mut Vec<String>) {
    if let Err(e) = emit(a, &[SURVIVOR_POST]) {
        problems.push(format!("survivor-port-broken: emit failed: {e}"));
        return;
    }
    match drain(b) {
        Ok(vs) => {
            let want = if env.pattern == Pattern::Event { SURVIVOR_POST % 8 } else { SURVIVOR_POST };
            if !vs.contains(&want) {
                problems.push(format!("survivor-port-broken: sent {want} to a new peer but received {vs:?}"));
            }
            for v in &vs {
                let ok = if env.pattern == Pattern::Event { *v < 8 } else { plausible(*v) };
                if !ok {
                    problems.push(format!("corrupted-data: received {v}"));
                }
            }
        }
        Err(e) => problems.push(format!("survivor-port-broken: drain failed: {e}")),
    }
}

// ------------------------------------------------------------------------------------------
// C07 cleaner leg: a process that tries to clean up every dead node it sees

/// prints one line per dead node: `CLEAN <ok|error text>`, then `CLEANER-DONE dead=<n> remaining_dead=<n> alive=<n>`
pub fn cleaner_main(env: &Env) -> i32 {
    drop_privileges();
    set_log_level(LogLevel::Fatal);
    let cfg = config(env);
    marker(77);
    let mut views = Vec::new();
    let listed = Node::<Svc>::list(&cfg, |s| {
        if let NodeState::Dead(v) = s {
            views.push(v);
        }
        CallbackProgression::Continue
    });
    if let Err(e) = listed {
        println!("CLEANER-ERROR list {e:?}");
    }
    let n = views.len();
    for v in views {
        match v.try_remove_stale_resources() {
            Ok(()) => println!("CLEAN ok"),
            Err(e) => println!("CLEAN {e:?}"),
        }
    }
    marker(78);
    let (mut alive, mut dead) = (0, 0);
    let _ = Node::<Svc>::list(&cfg, |s| {
        match s {
            NodeState::Alive(_) => alive += 1,
            NodeState::Dead(_) => dead += 1,
            _ => {}
        }
        CallbackProgression::Continue
    });
    println!("CLEANER-DONE dead={n} remaining_dead={dead} alive={alive}");
    0
}

// ------------------------------------------------------------------------------------------
// C06, process leg: two processes create / open / open_or_create / drop ONE service; the tracer
// pauses the first ("victim" in the tracer's vocabulary, although nobody is killed here) before
// one of its visible system calls, lets the second ("peer") run one complete call, and resumes.

/// settings knob that distinguishes the two parties' creations (variant 0 -> 2, variant 1 -> 3)
pub fn knob(h: &Handle) -> usize {
    match h {
        Handle::PubSub(s) => s.static_config().max_publishers(),
        Handle::Event(s) => s.static_config().max_notifiers(),
        Handle::ReqRes(s) => s.static_config().max_clients(),
        Handle::Blackboard(s) => s.static_config().max_readers(),
    }
}

/// op: "create" | "open" | "ooc" (blackboard: "ooc" is not offered)
pub fn service_op(node: &Node<Svc>, env: &Env, op: &str, variant: u8) -> Result<Handle, String> {
    let name = service_name(env);
    let k = 2 + variant as usize;
    let e = |e: &dyn core::fmt::Debug| format!("{e:?}");
    match (env.pattern, op) {
        (Pattern::PubSub, "create") => node.service_builder(&name).publish_subscribe::<u64>().max_publishers(k).create().map(Handle::PubSub).map_err(|x| e(&x)),
        (Pattern::PubSub, "open") => node.service_builder(&name).publish_subscribe::<u64>().open().map(Handle::PubSub).map_err(|x| e(&x)),
        (Pattern::PubSub, "ooc") => node.service_builder(&name).publish_subscribe::<u64>().max_publishers(k).open_or_create().map(Handle::PubSub).map_err(|x| e(&x)),
        (Pattern::Event, "create") => node.service_builder(&name).event().max_notifiers(k).create().map(Handle::Event).map_err(|x| e(&x)),
        (Pattern::Event, "open") => node.service_builder(&name).event().open().map(Handle::Event).map_err(|x| e(&x)),
        (Pattern::Event, "ooc") => node.service_builder(&name).event().max_notifiers(k).open_or_create().map(Handle::Event).map_err(|x| e(&x)),
        (Pattern::ReqRes, "create") => node.service_builder(&name).request_response::<u64, u64>().max_clients(k).create().map(Handle::ReqRes).map_err(|x| e(&x)),
        (Pattern::ReqRes, "open") => node.service_builder(&name).request_response::<u64, u64>().open().map(Handle::ReqRes).map_err(|x| e(&x)),
        (Pattern::ReqRes, "ooc") => node.service_builder(&name).request_response::<u64, u64>().max_clients(k).open_or_create().map(Handle::ReqRes).map_err(|x| e(&x)),
        (Pattern::Blackboard, "create") => node.service_builder(&name).blackboard_creator::<u64>().max_readers(k).add::<u64>(KEY, 0).create().map(Handle::Blackboard).map_err(|x| e(&x)),
        (Pattern::Blackboard, "open") => node.service_builder(&name).blackboard_opener::<u64>().open().map(Handle::Blackboard).map_err(|x| e(&x)),
        (p, o) => Err(format!("HARNESS: operation {o} is not defined for {p:?}")),
    }
}

pub fn race_config(env: &Env) -> Config {
    let mut c = config(env);
    // a party that finds the other one stopped in the middle of a creation gives up quickly
    c.global.creation_timeout = Duration::from_millis(40);
    c
}

pub fn messaging_pattern(env: &Env) -> MessagingPattern {
    match env.pattern {
        Pattern::PubSub => MessagingPattern::PublishSubscribe,
        Pattern::Event => MessagingPattern::Event,
        Pattern::ReqRes => MessagingPattern::RequestResponse,
        Pattern::Blackboard => MessagingPattern::Blackboard,
    }
}

/// first party: node (not traced) | marker 77 | service op | result | marker 111 = holding |
/// drop of the handle | marker 78 | node drop.   `op` = create | ooc
pub fn race_first_main(env: &Env, op: &str) -> i32 {
    use std::io::Write;
    drop_privileges();
    set_log_level(LogLevel::Fatal);
    let mut cfg = race_config(env);
    // the first party is the one that gets stopped by the tracer: time spent stopped must not
    // count against its own retry budget (open_or_create gives up after the creation timeout)
    cfg.global.creation_timeout = Duration::from_secs(20);
    let node = match NodeBuilder::new().config(&cfg).create::<Svc>() {
        Ok(n) => n,
        Err(e) => {
            println!("FIRST-RESULT harness-error node {e:?}");
            return 3;
        }
    };
    marker(77);
    marker(101);
    let r = service_op(&node, env, op, 0);
    match &r {
        Ok(h) => println!("FIRST-RESULT ok knob={}", knob(h)),
        Err(e) => println!("FIRST-RESULT err {e}"),
    }
    let _ = std::io::stdout().flush();
    marker(111);
    marker(105);
    drop(r);
    marker(106);
    marker(78);
    drop(node);
    0
}

/// second party, line protocol:
///   OP <create|open|ooc>  -> `RESULT ok knob=<n>` | `RESULT err <text>`      (variant 1 settings)
///   REPORT                -> `REPORT exists=<..> knob=<n|none> port=<ok|none|error text>`
///   DROP                  -> `DROPPED exists=<..>`
///   QUIT
pub fn race_peer_main(env: &Env) -> i32 {
    use std::io::{BufRead, Write};
    drop_privileges();
    set_log_level(LogLevel::Fatal);
    let cfg = race_config(env);
    let node = NodeBuilder::new().config(&cfg).create::<Svc>().expect("peer node");
    let mut handle: Option<Handle> = None;
    println!("READY");
    std::io::stdout().flush().unwrap();
    let stdin = std::io::stdin();
    let mut line = String::new();
    let exists = |cfg: &Config| match Svc::does_exist(&service_name(env), cfg, messaging_pattern(env)) {
        Ok(b) => format!("{b}"),
        Err(e) => format!("error:{e:?}"),
    };
    loop {
        line.clear();
        if stdin.lock().read_line(&mut line).unwrap_or(0) == 0 {
            return 4;
        }
        let cmd = line.trim().to_string();
        if let Some(op) = cmd.strip_prefix("OP ") {
            match service_op(&node, env, op, 1) {
                Ok(h) => {
                    println!("RESULT ok knob={}", knob(&h));
                    handle = Some(h);
                }
                Err(e) => println!("RESULT err {e}"),
            }
        } else if cmd == "REPORT" {
            let (k, port) = match &handle {
                Some(h) => (
                    format!("{}", knob(h)),
                    match create_port(h, Role::B) {
                        Ok(p) => {
                            drop(p);
                            "ok".to_string()
                        }
                        Err(e) => e.replace(' ', "_"),
                    },
                ),
                None => ("none".to_string(), "none".to_string()),
            };
            println!("REPORT exists={} knob={} port={}", exists(&cfg), k, port);
        } else if cmd == "DROP" {
            drop(handle.take());
            println!("DROPPED exists={}", exists(&cfg));
        } else if cmd == "QUIT" {
            drop(handle.take());
            drop(node);
            return 0;
        }
        std::io::stdout().flush().unwrap();
    }
}
