#!/bin/bash
# usage: tools/run_demos.sh <property id> <dir with *.diff> [tier]  — runs every demo patch, appends to demos_results.tsv
id=$1; dir=$2; tier=${3:-quick}
cd /verif
for d in "$dir"/*.diff; do
  t0=$(date +%s)
  out=$(tools/demo.sh "$d" "$id" "$tier" 2>&1)
  code=$(echo "$out" | grep -o "exit [0-9]*$" | tail -1 | awk '{print $2}')
  viol=$(echo "$out" | grep -c "^VIOLATION")
  msg=$(echo "$out" | grep -A1 "^VIOLATION" | grep -v "^VIOLATION" | head -1 | cut -c1-160 | tr '\t' ' ')
  echo -e "$id\t$(basename "$d")\t$tier\texit=$code\tviolations=$viol\t$(( $(date +%s) - t0 ))s\t$msg" | tee -a /verif/demos_results.tsv
done
# replays written while /repo was mutated are not findings of the unchanged tree
find /verif/replays/$id -name '*_[0-9]*.json' -newer /verif/tools/run_demos.sh -delete 2>/dev/null
true
