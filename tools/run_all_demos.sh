#!/bin/bash
# usage: tools/run_all_demos.sh [tier]  — runs every own demo patch (<harness>/demos/*.diff) against a mutated
# copy (tools/mutcheck.sh, /repo stays untouched) and writes demos_results.tsv (exit 1 = detected)
tier=${1:-quick}
cd /verif
declare -A PROP=( [h_limits]=C08 [h_connseq]=C13 [ptx]=C06 [h_blackboard]=C12 [h_container]=C10 [h_event]=C05 [h_idx]=C09 [h_spsc]=C03 [h_alloc]=C15 [h_containers]=C16
 [h_ffi]=C18 [h_lifecycle]=C17 [h_names]=C19 [h_reloc]=C14 [h_reqres]=C11 [h_waitset]=C20 )
out=demos_results.tsv
echo -e "property\tharness\tpatch\ttier\tresult\tseconds\tfirst violation" > $out
for d in mc/*/demos/*.diff seq/*/demos/*.diff; do
  h=$(basename $(dirname $(dirname $d)))
  id=${PROP[$h]:-}
  if [ "$h" = h_pubsub ]; then case $(basename $d) in c01*) id=C01;; c02*) id=C02;; c08*) id=C08;; esac; fi
  if [ "$h" = h_lifecycle ]; then case $(basename $d) in service-state*) id=C06;; esac; fi
  [ -z "$id" ] && continue
  t0=$(date +%s)
  o=$(tools/mutcheck.sh "$d" "$id" "$tier" 2>&1); code=$?
  msg=$(echo "$o" | grep -A1 "^VIOLATION" | grep -v "^VIOLATION" | head -1 | cut -c1-200 | tr '\t' ' ')
  case $code in 1) r=detected;; 0) r=MISSED;; *) r="machinery($code)";; esac
  echo -e "$id\t$h\t$(basename $d)\t$tier\t$r\t$(( $(date +%s) - t0 ))\t$msg" >> $out
done
