#!/usr/bin/env python3
"""Development helper (never used by a registered check): runs ./check <id> repeatedly, each time
appending the unlisted violation signatures it reports to a scratch copy of the known-findings
list, until the check is quiet; prints the signatures so that they can be reviewed by hand and
then added to known_findings.json with a description.  usage: tools/learn_known.py C05 [tier]"""
import json, os, subprocess, sys
V = os.path.dirname(os.path.dirname(os.path.abspath(__file__)))
pid = sys.argv[1]; tier = sys.argv[2] if len(sys.argv) > 2 else "quick"
kf = os.path.join(V, "known_findings.json")
orig = open(kf).read()
learned = []
try:
    for it in range(30):
        r = subprocess.run(["./check", pid, "--tier", tier], cwd=V, capture_output=True, text=True)
        ev = json.load(open(os.path.join(V, "evidence", f"{pid}.json")))
        parts_dir = os.path.join(V, ".run", "parts")
        new = []
        for f in os.listdir(parts_dir):
            if f.startswith(pid + "_"):
                p = json.load(open(os.path.join(parts_dir, f)))
                import re
                known = [k["signature"] for k in json.loads(open(kf).read())["findings"]]
                def m(pat, sig):
                    return re.fullmatch(".*".join(re.escape(x) for x in pat.split("*")), sig, re.S) is not None
                for v in p.get("violations", []) + p.get("known_hits", []):
                    if not any(m(k, v["signature"]) for k in known):
                        new.append(v)
        print(f"iteration {it}: exit {r.returncode}, new signatures {len(new)}", flush=True)
        if not new:
            break
        d = json.loads(open(kf).read())
        for v in new:
            d["findings"].append({"property": pid, "status": "known", "signature": v["signature"], "what": "(learning)"})
            learned.append(v)
        open(kf, "w").write(json.dumps(d, indent=1))
finally:
    open(kf, "w").write(orig)
for v in learned:
    print(json.dumps({"signature": v["signature"], "message": str(v.get("message"))[:300], "replay": str(v.get("replay"))}))
