#!/bin/bash
# usage: tools/mutcheck.sh <patch.diff> <property id> [tier]
# Runs a check against a MUTATED COPY of the repository without touching /repo:
#   /tmp/mut/repo  = git worktree of /repo HEAD with the patch applied
#   /tmp/mut/verif = copy of /verif whose path dependencies point at /tmp/mut/repo (own target dirs)
# Used only for detection demos while other builds use /repo; the registered checks always use /repo.
set -u
patch=$(realpath "$1"); id=$2; tier=${3:-quick}
M=${MUT_DIR:-/tmp/mut}
mkdir -p $M
if [ ! -d $M/repo ]; then git -C /repo worktree add -q --detach $M/repo HEAD || exit 2; fi
git -C $M/repo checkout -q -- . ; git -C $M/repo clean -fdq; git -C $M/repo checkout -q --detach "$(git -C /repo rev-parse HEAD)" || exit 2
# carry over uncommitted hook files of /repo (feature-guarded additions)
( cd /repo && git diff HEAD ) | git -C $M/repo apply -q 2>/dev/null
for f in $(git -C /repo ls-files --others --exclude-standard | grep -v '^target/'); do mkdir -p "$M/repo/$(dirname $f)"; cp "/repo/$f" "$M/repo/$f"; done
git -C $M/repo apply "$patch" || { echo "patch does not apply"; exit 2; }
rsync -a --delete --exclude .git --exclude '.target-*' --exclude .run --exclude replays --exclude evidence /verif/ $M/verif/
grep -rl --include=Cargo.toml --include=config.toml --include='*.rs' --include='*.py' --include=check -e '/repo/' -e '/verif/' $M/verif | while read f; do
  sed -i -e "s#/repo/#$M/repo/#g" -e "s#\"/repo\"#\"$M/repo\"#g" -e "s#/verif/#$M/verif/#g" "$f"
done
cp /repo/Cargo.lock $M/verif/mc/Cargo.lock.repo 2>/dev/null
cd $M/verif && mkdir -p .run && ./check "$id" --tier "$tier"; code=$?
git -C $M/repo checkout -q -- .
echo "mutcheck $(basename "$patch") on $id: exit $code"
exit $code
