#!/bin/bash
# usage: tools/run_all_quick.sh [log]   — every quick check once, summary per property
log=${1:-/tmp/all_quick.log}
cd /verif; : > $log
for id in $(python3 -c "import sys; sys.path.insert(0,'/verif'); from checks_table import PROPS; print(' '.join(sorted(PROPS)))"); do
  t0=$(date +%s)
  out=$(./check $id --tier quick 2>&1); code=$?
  echo "== $id exit=$code $(( $(date +%s)-t0 ))s known=$(echo "$out" | grep -c '^KNOWN-FINDING')" >> $log
  echo "$out" | grep -E "VIOLATION|MACHINERY|\[run\]" | cut -c1-300 >> $log
done
