#!/usr/bin/env python3
"""Regenerates /verif/MANIFEST.json from checks_table.py + not_applicable.json."""
import json, os, sys
V = os.path.dirname(os.path.dirname(os.path.abspath(__file__)))
sys.path.insert(0, V)
from checks_table import PROPS
na = json.load(open(os.path.join(V, "not_applicable.json")))
all_ids = [json.loads(l)["id"] for l in open(os.path.join(V, "properties.jsonl"))]
checks = []
for pid in sorted(PROPS):
    s = PROPS[pid]
    engines = sorted({l["bin"] for l in s["legs"]})
    checks.append({
        "property_id": pid,
        "quick_cmd": f"./check {pid} --tier quick",
        "thorough_cmd": f"./check {pid} --tier thorough",
        "evidence_file": f"evidence/{pid}.json",
        "replay_cmd_template": f"./check {pid} --replay {{path}}",
        "engine": "+".join(engines),
        "level_claimed": {"category": s["level"], "text": s["level_text"], "design_ref": s["design_ref"]},
        "level_note": s["level_note"],
        "technique": s["technique"],
    })
claimed = set(PROPS)
nas = [{"property_id": p, "reason": na.get(p, "no check built yet in this round; see DESIGN.md §8 for the plan")}
       for p in all_ids if p not in claimed]
hooks = json.load(open(os.path.join(V, "hooks.json")))
m = {
    "version": 1,
    "setup_cmd": "./check --setup",
    "hooks": hooks,
    "engines": [
        {"name": "ixmc", "path": "mc/ixmc", "serves_properties": sorted(p for p in PROPS if any(l["ws"] == "mc" for l in PROPS[p]["legs"])),
         "kind_free_text": "E1: own stateless model checker; real iceoryx2 code built against an instrumented drop-in of iceoryx2-pal-concurrency-sync; DFS over schedules by re-execution with preemption and staleness bounds"},
        {"name": "seqx", "path": "seq/seqx", "serves_properties": sorted(p for p in PROPS if any(l["ws"] == "seq" for l in PROPS[p]["legs"])),
         "kind_free_text": "E3/E2: bounded-exhaustive operation-sequence enumeration against reference models; crash-point enumeration"},
    ],
    "checks": checks,
    "notes": "All checks rebuild their harness from /repo's working tree (cargo path dependencies) before running. See DESIGN.md.",
    "not_applicable": nas,
}
json.dump(m, open(os.path.join(V, "MANIFEST.json"), "w"), indent=1)
print("claimed", sorted(claimed), "not claimed", [n["property_id"] for n in nas])
