#!/bin/bash
# usage: tools/demo.sh <patch.diff> <property id> [tier]
# Applies a mutation to /repo, runs the check, and reverts exactly that mutation (git apply -R).
set -u
patch=$(realpath "$1"); id=$2; tier=${3:-quick}
cd /repo || exit 2
git apply --check "$patch" || { echo "patch does not apply"; exit 2; }
git apply "$patch" || exit 2
cd /verif && ./check "$id" --tier "$tier"; code=$?
git -C /repo apply -R "$patch" || echo "WARNING: could not revert $patch"
echo "demo $(basename "$patch") on $id: exit $code"
exit $code
