#!/bin/bash
# usage: tools/demo.sh <patch.diff> <property id> [tier]   — apply a mutation to /repo, run the check, revert.
set -u
patch=$(realpath "$1"); id=$2; tier=${3:-quick}
cd /repo || exit 2
if [ -n "$(git status --porcelain --untracked-files=no)" ]; then echo "/repo is dirty, refusing"; exit 2; fi
git apply "$patch" || { echo "patch does not apply"; exit 2; }
cd /verif && ./check "$id" --tier "$tier"; code=$?
git -C /repo checkout -- . 
echo "demo $(basename "$patch") on $id: exit $code"
exit $code
