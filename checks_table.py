"""Which harness binaries decide which property (read by ./check and by tools/gen_manifest.py)."""

WORKSPACES = {
    # E1: /repo built against the atomics drop-in (cargo paths override in mc/.cargo/config.toml)
    "mc": {"target": ".target-mc"},
    # E2/E3: /repo exactly as shipped
    "seq": {"target": ".target-seq"},
}

IXMC_ASSUME = [
    "context switches happen only at hooked operations: every atomic operation, every UnsafeCell::get, after every atomic load/RMW, explicit ixmc::step(); code between two hooks is one indivisible step",
    "interleavings are sequentially consistent; stale reads of relaxed/acquire loads are explored under a release/acquire view model in which SeqCst accesses and fences are strengthened to full synchronisation (explored executions are a subset of C11 executions)",
    "bounds as reported per case (threads, operations, capacity, preemption bound, staleness bound)",
    "the drop-in atomics (repr(transparent) newtypes over core atomics) behave like core atomics when no hook table is installed",
]

PROPS = {
    "C03": {
        "level": "model_checking",
        "technique": "stateless model checking of the real queue code under a controlled scheduler (DFS over all schedules within a preemption/staleness bound), linearizability oracle",
        "legs": [{"ws": "mc", "bin": "h_spsc"}],
        "rule": "one case = (queue type, capacity, operation counts, hand-over variant); within a case every schedule "
                "with <= PB preemptions and <= SB stale reads is executed on the real code; an outcome is the per-thread "
                "sequence of operation results, distinct outcomes are counted per case (a case with a single outcome would be vacuous)",
        "assumptions": IXMC_ASSUME,
        "design_ref": "DESIGN.md §3.1, §4 C03",
        "level_text": "Every schedule (context switch at every atomic operation, cell access and after every load) of the real "
                      "IndexQueue / SafelyOverflowingIndexQueue / spsc::Queue code with one producer, one consumer and an optional role "
                      "hand-over is executed up to the stated preemption and staleness bounds and checked for linearizability against a "
                      "bounded FIFO. This is the right level because the property quantifies over schedules, which only a controlled "
                      "scheduler can enumerate; the bound is what remains unproven.",
        "level_note": "trusted: the ixmc scheduler and its granularity (switches only at hooked operations), the strengthening "
                      "view model for stale reads, the linearizability checker; bounded: <=3 threads, <=4+4 operations, capacity <=3, PB<=2 quick / <=4 thorough",
    },
}
