"""Which harness binaries decide which property (read by ./check and by tools/gen_manifest.py)."""

WORKSPACES = {
    # E1: /repo built against the atomics drop-in (cargo paths override in mc/.cargo/config.toml)
    "mc": {"target": ".target-mc"},
    # E2/E3: /repo exactly as shipped
    "seq": {"target": ".target-seq"},
}

IXMC_ASSUME = [
    "context switches happen only at hooked operations: every atomic operation, every UnsafeCell::get, after every atomic load/RMW, explicit ixmc::step(); code between two hooks is one indivisible step",
    "interleavings are sequentially consistent; stale reads of relaxed/acquire loads are explored under a release/acquire view model in which SeqCst accesses and fences are strengthened to full synchronisation (explored executions are a subset of C11 executions)",
    "bounds as reported per case (threads, operations, capacity, preemption bound, staleness bound)",
    "the drop-in atomics (repr(transparent) newtypes over core atomics) behave like core atomics when no hook table is installed",
]

PROPS = {
    "C03": {
        "level": "model_checking",
        "technique": "stateless model checking of the real queue code under a controlled scheduler (DFS over all schedules within a preemption/staleness bound), linearizability oracle",
        "legs": [{"ws": "mc", "bin": "h_spsc"}],
        "rule": "one case = (queue type, capacity, operation counts, hand-over variant); within a case every schedule "
                "with <= PB preemptions and <= SB stale reads is executed on the real code; an outcome is the per-thread "
                "sequence of operation results, distinct outcomes are counted per case (a case with a single outcome would be vacuous)",
        "assumptions": IXMC_ASSUME,
        "design_ref": "DESIGN.md §3.1, §4 C03",
        "level_text": "Every schedule (context switch at every atomic operation, cell access and after every load) of the real "
                      "IndexQueue / SafelyOverflowingIndexQueue / spsc::Queue code with one producer, one consumer and an optional role "
                      "hand-over is executed up to the stated preemption and staleness bounds and checked for linearizability against a "
                      "bounded FIFO. This is the right level because the property quantifies over schedules, which only a controlled "
                      "scheduler can enumerate; the bound is what remains unproven.",
        "level_note": "trusted: the ixmc scheduler and its granularity (switches only at hooked operations), the strengthening "
                      "view model for stale reads, the linearizability checker; bounded: <=3 threads, <=4+4 operations, capacity <=3, PB<=2 quick / <=4 thorough",
    },
    "C09": {
        "level": "model_checking",
        "technique": "stateless model checking of the real index sets / pool allocators under a controlled scheduler (DFS over schedules within preemption and staleness bounds), linearizability + exclusivity oracles",
        "legs": [{"ws": "mc", "bin": "h_idx"}],
        "rule": "one case = (subject: UniqueIndexSet | RobustUniqueIndexSet | bb-memory PoolAllocator | cal shm PoolAllocator, capacity, per-thread "
                "acquire/release/lock/recover program); within a case every schedule with <= PB preemptions and <= SB stale reads is executed on the "
                "real code; outcomes = per-thread result sequences (distinct outcomes counted per case)",
        "assumptions": IXMC_ASSUME,
        "design_ref": "DESIGN.md §3.1, §4 C09",
        "level_text": "Every schedule of 2-3 threads running short acquire/release/lock-if-last/recover programs (ABA shapes on the free-list head "
                      "included) on capacities 1..4 is executed on the real code up to the stated bounds; exclusivity, range, conservation are "
                      "checked directly and the call/return history is checked for linearizability against a set-of-free-indices specification.",
        "level_note": "trusted: ixmc scheduler granularity, the view model for stale reads, the linearizability checker; bounded: <=3 threads + main, <=3 ops per thread, capacity <=4, PB<=2 quick / <=4 thorough, SB<=1 quick / <=2 thorough",
    },
    "C10": {
        "level": "model_checking",
        "technique": "stateless model checking of the real mpmc::Container (registry) under a controlled scheduler, snapshot oracle with real-time clauses",
        "legs": [{"ws": "mc", "bin": "h_container"}],
        "rule": "one case = (capacity, prefill, writer programs of add/remove/recover, number of reader refreshes); every schedule within the bounds "
                "is executed on the real code; outcome = what every refresh returned and yielded",
        "assumptions": IXMC_ASSUME + ["the container's own payload copy (a memcpy) is one indivisible step; tears inside it are out of reach at this granularity"],
        "design_ref": "DESIGN.md §3.1, §4 C10",
        "level_text": "All schedules of 1-2 writers (add/remove/recover with slot reuse) against a refreshing reader on capacities 1..3 are executed "
                      "on the real Container up to the stated bounds; every refresh is checked for: only really-added intact entries, no entry whose "
                      "removal completed before the refresh began, every completed add present, exact set and 'nothing changed' at quiescence.",
        "level_note": "trusted: ixmc scheduler granularity, view model; bounded: <=2 writers + reader, capacity <=3, PB<=2 quick / <=3..5 thorough. "
                      "Stale-read stages are restricted to scenarios without cross-thread slot hand-over (see DESIGN.md §6 O1).",
    },
    "C12": {
        "level": "model_checking",
        "technique": "stateless model checking of the real UnrestrictedAtomic (blackboard value cell) under a controlled scheduler with split user-side writes",
        "legs": [{"ws": "mc", "bin": "h_blackboard"}],
        "rule": "one case = (value type of 1..9 words, number and style of writer updates (store / two-step loan with the value written in two halves), "
                "readers x loads); every schedule within the bounds is executed on the real code; outcome = version sequence each reader saw",
        "assumptions": IXMC_ASSUME + ["a reader's copy is separated from its counter load by the scheduling point after every atomic load; the writer's two-step update writes its value in two halves with an explicit scheduling point in between"],
        "design_ref": "DESIGN.md §3.1, §4 C12",
        "level_text": "All schedules of one writer (2-4 updates, copy and loan style) against 1-2 readers are executed on the real UnrestrictedAtomic up "
                      "to the stated bounds: every value read is one written value in one piece, versions never go backwards per reader, and a second "
                      "producer is refused while the first lives. Port level (Writer/Reader objects, one writer per service) is covered sequentially by C17/C08 harnesses, not here.",
        "level_note": "trusted: ixmc scheduler granularity, view model; bounded: 1 writer, <=2 readers, <=4 updates, value sizes 1 byte..9 words, PB<=3 quick / <=5 thorough",
    },
}
