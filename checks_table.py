"""Which harness binaries decide which property (read by ./check and by tools/gen_manifest.py)."""

WORKSPACES = {
    # E1: /repo built against the atomics drop-in (cargo paths override in mc/.cargo/config.toml)
    "mc": {"target": ".target-mc"},
    # E2/E3: /repo exactly as shipped
    "seq": {"target": ".target-seq"},
}

IXMC_ASSUME = [
    "context switches happen only at hooked operations: every atomic operation, every UnsafeCell::get, after every atomic load/RMW, explicit ixmc::step(); code between two hooks is one indivisible step",
    "interleavings are sequentially consistent; stale reads of relaxed/acquire loads are explored under a release/acquire view model in which SeqCst accesses and fences are strengthened to full synchronisation (explored executions are a subset of C11 executions)",
    "bounds as reported per case (threads, operations, capacity, preemption bound, staleness bound)",
    "the drop-in atomics (repr(transparent) newtypes over core atomics) behave like core atomics when no hook table is installed",
]

PROPS = {
    "C03": {
        "level": "model_checking",
        "technique": "stateless model checking of the real queue code under a controlled scheduler (DFS over all schedules within a preemption/staleness bound), linearizability oracle",
        "legs": [{"ws": "mc", "bin": "h_spsc"}, {"ws": "mc", "bin": "h_conn", "args": ["--prop", "C03", "--only", "data/"]}],
        "rule": "one case = (queue type, capacity, operation counts, hand-over variant); within a case every schedule "
                "with <= PB preemptions and <= SB stale reads is executed on the real code; an outcome is the per-thread "
                "sequence of operation results, distinct outcomes are counted per case (a case with a single outcome would be vacuous)",
        "assumptions": IXMC_ASSUME,
        "design_ref": "DESIGN.md §3.1, §4 C03",
        "level_text": "Every schedule (context switch at every atomic operation, cell access and after every load) of the real "
                      "IndexQueue / SafelyOverflowingIndexQueue / spsc::Queue code with one producer, one consumer and an optional role "
                      "hand-over is executed up to the stated preemption and staleness bounds and checked for linearizability against a "
                      "bounded FIFO. This is the right level because the property quantifies over schedules, which only a controlled "
                      "scheduler can enumerate; the bound is what remains unproven.",
        "level_note": "trusted: the ixmc scheduler and its granularity (switches only at hooked operations), the strengthening "
                      "view model for stale reads, the linearizability checker; bounded: <=3 threads, <=4+4 operations, capacity <=3, PB<=2 quick / <=4 thorough",
    },
    "C09": {
        "level": "model_checking",
        "technique": "stateless model checking of the real index sets / pool allocators under a controlled scheduler (DFS over schedules within preemption and staleness bounds), linearizability + exclusivity oracles",
        "legs": [{"ws": "mc", "bin": "h_idx"}],
        "rule": "one case = (subject: UniqueIndexSet | RobustUniqueIndexSet | bb-memory PoolAllocator | cal shm PoolAllocator, capacity, per-thread "
                "acquire/release/lock/recover program); within a case every schedule with <= PB preemptions and <= SB stale reads is executed on the "
                "real code; outcomes = per-thread result sequences (distinct outcomes counted per case)",
        "assumptions": IXMC_ASSUME,
        "design_ref": "DESIGN.md §3.1, §4 C09",
        "level_text": "Every schedule of 2-3 threads running short acquire/release/lock-if-last/recover programs (ABA shapes on the free-list head "
                      "included) on capacities 1..4 is executed on the real code up to the stated bounds; exclusivity, range, conservation are "
                      "checked directly and the call/return history is checked for linearizability against a set-of-free-indices specification.",
        "level_note": "trusted: ixmc scheduler granularity, the view model for stale reads, the linearizability checker; bounded: <=3 threads + main, <=3 ops per thread, capacity <=4, PB<=2 quick / <=4 thorough, SB<=1 quick / <=2 thorough",
    },
    "C10": {
        "level": "model_checking",
        "technique": "stateless model checking of the real mpmc::Container (registry) under a controlled scheduler, snapshot oracle with real-time clauses",
        "legs": [{"ws": "mc", "bin": "h_container"}],
        "rule": "one case = (capacity, prefill, writer programs of add/remove/recover, number of reader refreshes); every schedule within the bounds "
                "is executed on the real code; outcome = what every refresh returned and yielded",
        "assumptions": IXMC_ASSUME + ["the container's own payload copy (a memcpy) is one indivisible step; tears inside it are out of reach at this granularity"],
        "design_ref": "DESIGN.md §3.1, §4 C10",
        "level_text": "All schedules of 1-2 writers (add/remove/recover with slot reuse) against a refreshing reader on capacities 1..3 are executed "
                      "on the real Container up to the stated bounds; every refresh is checked for: only really-added intact entries, no entry whose "
                      "removal completed before the refresh began, every completed add present, exact set and 'nothing changed' at quiescence.",
        "level_note": "trusted: ixmc scheduler granularity, view model; bounded: <=2 writers + reader, capacity <=3, PB<=2 quick / <=3..5 thorough. "
                      "Stale-read stages are restricted to scenarios without cross-thread slot hand-over (see DESIGN.md §6 O1).",
    },
    "C12": {
        "level": "model_checking",
        "technique": "stateless model checking of the real UnrestrictedAtomic (blackboard value cell) under a controlled scheduler with split user-side writes, and of the real Writer / Reader entry handles of a blackboard service (copy and loan-style updates against concurrent get); bounded-exhaustive sequential port histories",
        "legs": [{"ws": "mc", "bin": "h_blackboard"}, {"ws": "seq", "bin": "h_bbport"}, {"ws": "mc", "bin": "h_bbport_mt"}],
        "rule": "one case = (value type of 1..9 words, number and style of writer updates (store / two-step loan with the value written in two halves), "
                "readers x loads); every schedule within the bounds is executed on the real code; outcome = version sequence each reader saw",
        "assumptions": IXMC_ASSUME + ["a reader's copy is separated from its counter load by the scheduling point after every atomic load; the writer's two-step update writes its value in two halves with an explicit scheduling point in between"],
        "design_ref": "DESIGN.md §3.1, §4 C12",
        "level_text": "All schedules of one writer (2-4 updates, copy and loan style) against 1-2 readers are executed on the real UnrestrictedAtomic up "
                      "to the stated bounds: every value read is one written value in one piece, versions never go backwards per reader, and a second "
                      "producer is refused while the first lives. A sequential leg (h_bbport, seqx) enumerates all histories of writer / write-handle creation and refusal, copy and loan style updates and reads on the real Writer/Reader ports of a local blackboard service. A port-level thread leg (h_bbport_mt) runs a writer entry handle (loan+copy, loan+write, copy updates) against a reader entry handle of a local_threadsafe service under every schedule to PB 2 (quick) / 4 (thorough).",
        "level_note": "trusted: ixmc scheduler granularity, view model; bounded: 1 writer, <=2 readers, <=4 updates, value sizes 1 byte..9 words, PB<=3 quick / <=5 thorough; port-level thread leg: 3-word value, <=3 updates, 1 reader",
    },
    "C05": {
        "level": "model_checking",
        "technique": "stateless model checking of the real event notify/wait hand-shake (cal event::common) under a controlled scheduler with a model trigger; lost-wake-up = deadlock verdict",
        "legs": [{"ws": "mc", "bin": "h_event"}],
        "rule": "one case = (event-state type: bit set | counting bit set, notifier threads and the ids they notify, listener wait rounds: try/timed/blocking); "
                "every schedule within the bounds is executed on the real EventImpl code; outcome = what every wait and every notify returned",
        "assumptions": IXMC_ASSUME + ["the trigger back-end is a model (counter in a hooked atomic) implementing the repository's public trigger traits; the blocking behaviour of the real semaphore / socket triggers is represented by it", "SeqCst accesses are modelled as full synchronisation: store-buffering effects between the relaxed id activation and the SeqCst state hand-shake are not explored"],
        "design_ref": "DESIGN.md §3.1, §4 C05",
        "level_text": "All schedules of 1-3 notifier threads (1-2 notifies each, colliding ids) against a listener doing 2-3 wait rounds are executed on the "
                      "real notify/drain_events code for both event-state types up to the stated bounds; oracles: no sleeping while an acknowledged notification is undelivered, "
                      "every acknowledged id delivered by the final drain, no phantom ids, no more occurrences than sent.",
        "level_note": "trusted: ixmc scheduler, the model trigger; bounded: <=3 notifiers x <=2 notifies, <=3 wait rounds, PB<=2 quick / <=4 thorough",
    },
    "C04": {
        "level": "fault_enumeration",
        "technique": "exhaustive crash-point enumeration of real processes under ptrace: SIGKILL before every state-changing system call of every lifecycle scenario, then survivor detection/cleanup/usability and leftover scan",
        "legs": [{"ws": "seq", "bin": "ptx", "args": ["--prop", "C04"]}],
        # the thorough tier's atomic-operation kill points need the victim built against the drop-in
        "build_only": [{"ws": "mc", "bin": "crash_child_mc"}],
        "rule": "see coverage.legs[0].rule",
        "assumptions": [
            "a crash is a SIGKILL delivered at the entry of a visible system call (open/creat/mkdir/rmdir/unlink/rename/link/chmod/fchmod/ftruncate/fcntl-lock/flock/mmap-shared/close/write/socket calls); the kernel's own atomicity of those calls is trusted",
            "quick tier: system-call kill points only; the thorough tier adds a kill point before EVERY atomic operation of the victim (built against the atomics drop-in), i.e. crashes between two shared-memory writes",
            "victim and survivor run as an unprivileged user (root bypasses the permission bits iceoryx2's creation protocol relies on)",
            "one victim, one survivor, ipc service variant, the four messaging patterns with both port roles; creation_timeout configured to 500 ms",
        ],
        "design_ref": "DESIGN.md §3.2, §4 C04",
        "level_text": "For every lifecycle scenario (4 messaging patterns x victim role x survivor shares the service or not) the victim process is killed "
                      "before EVERY state-changing system call of node creation, service create/open, port creation, traffic and orderly shutdown (all "
                      "points, not a sample); after each kill a surviving process must list the node as dead or absent, clean it up successfully, keep "
                      "working with a new peer (or re-create the service), and nothing of the victim may remain in the domain's directories or /dev/shm.",
        "level_note": "trusted: ptrace stepping, the visible-call filter, kernel atomicity of single system calls; not covered: crashes between plain (non-atomic) shared-memory writes, a second crash during cleanup of the same node (C07's cleaner leg kills a cleaner), more than two processes",
    },
    "C07": {
        "level": "fault_enumeration",
        "technique": "pause-and-probe plus crash-point enumeration under ptrace: at every state-changing system call of a node's life another process queries the liveness verdict while the victim is stopped (alive) and again after SIGKILL; cleanup exclusivity: every single-preemption interleaving (system-call / libc-call granularity) of two cleaner processes, of a cleaner that is killed, and of two cleaner threads of one process; plus a cleaner that is refused because another process holds the owner lock of the dead node",
        "legs": [{"ws": "seq", "bin": "ptx", "args": ["--prop", "C07"]}],
        "rule": "see coverage.legs[0].rule",
        "assumptions": [
            "the probe (Node::list in another process) is one atomic block relative to the stopped victim: interleavings inside the monitor's own multi-step decision are not enumerated",
            "victim and survivor run as an unprivileged user; creation_timeout configured to 500 ms",
            "cleaner races are enumerated for two cleaners (processes or threads) with one preemption; three or more concurrent cleaners are not enumerated",
        ],
        "design_ref": "DESIGN.md §3.2, §4 C07",
        "level_text": "At every state-changing system call of node creation, service/port creation, traffic and shutdown of a victim process, a second process "
                      "lists the nodes while the victim is stopped there (it must never be reported dead) and again after the victim was killed there (within "
                      "the creation timeout it must be reported dead or absent, never alive/undefined for ever, and a dead node must be collectable). Cleanup exclusivity is additionally enumerated for two cleaner THREADS of one process (thread A held before each libc call of its cleanup while thread B runs its attempt): at most one reports success. A cleaner that is refused while another process holds the owner lock must leave the three monitoring files of the dead node untouched, and a later cleaner must still collect the node.",
        "level_note": "trusted: ptrace stepping; not covered: interleavings inside the monitor's decision tree, three or more concurrent cleaners, more than one preemption between two cleaners",
    },
    "C13": {
        "level": "model_checking",
        "technique": "stateless model checking of the real zero-copy connection attach/detach/force-remove code over the process-local storage (its pthread mutex under scheduler control); bounded-exhaustive sequential histories of attach (matching and every mismatching parameter, also as duplicate of a held role) / detach / forced removal / exchange on the process-local, posix-shared-memory and file connection against a reference model (seqx leg)",
        "legs": [{"ws": "mc", "bin": "h_conn", "args": ["--only", "lifecycle/"]}, {"ws": "seq", "bin": "h_connseq"}],
        "rule": "one case = per-thread programs over {create_sender, create_receiver, use, drop, leak+force-remove} with matching or mismatching parameters (lifecycle cases), "
                "or a sender thread (try_send, reclaim) against a receiver thread (receive, release) (data cases); every schedule within the bounds is executed on the real code",
        "assumptions": IXMC_ASSUME + ["pthread mutexes are modelled by the scheduler (owner tracking, blocked threads are disabled); pthread_mutex_timedlock is modelled as a blocking lock", "thread leg: the dynamic storage is the process-local one; the posix shared memory storage shares the connection code (common.rs) but not the storage code", "sequential leg (h_connseq): tree depth 5 (process-local) / 3 (posix shm, file) quick, 6 / 4 thorough, every prefix finished (detach all, name reusable with other parameters), then breadth-first over all distinct model states (549 in total: process-local with parameters and queue position, the others by their projections) to depth 9-12"],
        "design_ref": "DESIGN.md §3.1, §4 C13",
        "level_text": "All schedules of 2-3 threads attaching, using, detaching and force-removing the sender and receiver role of one connection name are executed on the "
                      "real code up to the stated bounds: never two holders of one role, a live port always sits on an existing resource, mismatches are refused, after the "
                      "last detach the resource is gone and the name reusable; plus the offset conservation of the data path (also part of C03). Sequential leg (h_connseq): every history of attach with matching or mismatching parameters (also as duplicate of a held role), detach, forced removal and data exchange on three connection implementations agrees with a reference model after every step: refusals with the matching error, the attached side undisturbed (does_exist, is_connected, parameters, round trip), resource gone exactly after the last detach, name reusable.",
        "level_note": "trusted: ixmc scheduler incl. its mutex model; bounded: <=3 threads, <=4 steps each, PB<=2 quick (1 for 3 threads) / <=3 thorough; sequential histories to the depths above",
    },
    "C14": {
        "level": "exploration",
        "technique": "bounded-exhaustive enumeration of operation histories with relocation of the backing memory block at every point (old block made inaccessible), differential oracle against an un-relocated twin and a reference model, scan for embedded absolute addresses",
        "legs": [{"ws": "seq", "bin": "h_reloc"}],
        "rule": "see coverage.legs[0].rule",
        "assumptions": ["single-threaded histories; relocation = byte copy of the whole block to a different address, the old block stays mapped PROT_NONE", "the shm allocators are observed through offsets; growing a segment through a foreign mapping is outside their contract and not exercised", "bounded: capacities 1..3 (bit set also 9), depth 4 quick / 5-6 thorough, at most 2 relocations per history"],
        "design_ref": "DESIGN.md §3.3, §4 C14",
        "level_text": "Every relocatable structure (vector, queue, string, slot map, flat map, both index queues, both index sets, bit sets, registry container, used-chunk list, shm pool and bump allocator) is driven through ALL operation histories up to the depth with a relocation of its memory block possible after every prefix; after every step its observations must equal an un-relocated twin and a reference model, no word of the block may hold an address inside any block, and a stray absolute pointer faults on the protected old block.",
        "level_note": "trusted: seqx enumeration, the reference models; bounded as stated; concurrency is out of scope here (C03/C09/C10)",
    },
    "C16": {
        "level": "exploration",
        "technique": "bounded-exhaustive enumeration of all operation sequences up to a depth over small value domains for every container kind x storage flavour x capacity, step-by-step comparison with std reference models, drop-tracking elements",
        "legs": [{"ws": "seq", "bin": "h_containers"}],
        "rule": "see coverage.legs[0].rule",
        "assumptions": ["depth 4-5 quick / 6 thorough; value domains of 1-3 values; capacities 0..4", "the 'random sequences of length 10^4' clause of the quantifier is sampling and not part of this check", "heap flavours use a poisoning test allocator so that reads of uninitialised memory are deterministic"],
        "design_ref": "DESIGN.md §3.3, §4 C16",
        "level_text": "For Vec, Queue (incl. overflowing push), SlotMap, FlatMap, String and RelocatableOption in the inline, heap and relocatable flavours, capacities 0..4, EVERY operation sequence up to the depth over the full trait surface is executed on the real container and compared after every step with the std reference model (return values, lengths, full content, error variants, unchanged state after a rejected operation); every element's drop count is checked after every history.",
        "level_note": "trusted: seqx enumeration, the reference models; bounded as stated",
    },
    "C15": {
        "level": "exploration",
        "technique": "bounded-exhaustive enumeration of allocate/deallocate/grow/shrink histories over all small bucket layouts, region geometries and request layouts with an interval/pattern oracle; port-level slice publisher histories across segment growth",
        "legs": [{"ws": "seq", "bin": "h_alloc"}],
        "rule": "see coverage.legs[0].rule",
        "assumptions": ["single-threaded histories; depth 4 (quick) / 5-6 + frontier to 10 (thorough) after the geometry-selecting Setup step", "bucket sizes 1..33 (+64,100,128,4096) x alignments 1..64 and 4096 incl. sizes that are not multiples of the alignment; region start misaligned by 0/1/align-1; room for 0..4 buckets plus a partial one", "port level: local service, [u8]/[u64] slices, strategies Static/BestFit/PowerOfTwo, up to 3 held samples"],
        "design_ref": "DESIGN.md §3.3, §4 C15",
        "level_text": "All histories up to the depth on the real bb-memory pool / fixed-size pool / bump / one-chunk allocators and the cal shm pool / bump allocators, for every listed bucket layout, geometry and request layout: every returned block is inside the region, aligned as requested, fully writable, disjoint from all live blocks (unique byte patterns re-verified after every step), failures are the documented errors and change nothing, freed buckets are reusable; at port level samples held across segment growth stay byte-identical. Resizable shared memory (DynamicMemory over the pool allocator, process-local and posix): all allocate / deallocate / grow histories with up to 4 live chunks across segments; request-response with a dynamically growing response segment and two clients.",
        "level_note": "trusted: seqx enumeration, the interval model; bounded as stated; concurrency of the pool allocator is C09",
    },
    "C18": {
        "level": "translation_validation",
        "technique": "differential enumeration: every call sequence up to a depth is executed through the C API and through the Rust API (and mixed C/Rust participants on one service) and the observable outcomes are compared; exhaustive enumeration of every error enum variant through the binding's own conversion",
        "legs": [{"ws": "seq", "bin": "h_ffi"}],
        "rule": "see coverage.legs[0].rule",
        "assumptions": ["the Rust API is the reference; single-threaded call sequences of depth 3-5 (quick) / 4-6 (thorough) on pub-sub, event and request-response, ipc and local service types, custom payload type details size {1,8,12} x alignment {1,4,8,16}", "the crate-private IntoCInt conversions are reached through the feature-guarded hook verif_hooks (add-only)", "handle double release is not attempted (undefined by contract)"],
        "design_ref": "DESIGN.md §3.3, §4 C18",
        "level_text": "Every generated call sequence (loan/write/send/receive/release, notify/wait, request/response, limit-exceeding calls, handle drops) is run once through iox2_* and once through iceoryx2::prelude, and with mixed C/Rust participants on the same service; after every call success/failure, C error code vs the code the binding assigns to the Rust error, payload bytes, lengths, header id classes, counts and loan capacity must agree. Every variant of every error enum (47 enums, exhaustive matches) is converted: total, never IOX2_OK, one-to-one, distinct printable names.",
        "level_note": "trusted: seqx enumeration; the Rust API as reference; bounded depth",
    },
    "C19": {
        "level": "exploration",
        "technique": "exhaustive enumeration of all byte strings up to length 3 (and structured longer ones) for every semantic string type against an independently written predicate, all single-edit mutations of short accepted strings; bounded-exhaustive histories of two applications in all pairs of domain configurations",
        "legs": [{"ws": "seq", "bin": "h_names"}],
        "rule": "see coverage.legs[0].rule",
        "assumptions": ["quick tier: all strings of length <=2 for every type, length 3 in full for FileName/Path/FilePath and over a 32 byte alphabet for the others; thorough: length 3 in full for all types", "isolation: ipc services, pairs from 6 prefix relations x 4 root relations (11 covering pairs quick, all 24 thorough), histories of depth 3-5"],
        "design_ref": "DESIGN.md §3.3, §4 C19",
        "level_text": "For FileName, RestrictedFileName, Path, FilePath, UserName, GroupName, Base64Url, ServiceName, NodeName: every enumerated byte string is accepted iff an independent predicate written from the documented rules accepts it, accepted values round-trip, every mutating operation on short accepted strings succeeds iff the edited bytes are valid and otherwise leaves the value unchanged, accepted file names cannot leave the root. For every pair of domain configurations (prefixes that are prefixes of one another included) two applications create/list/open/clean nodes and services: each sees exactly its own domain and every file/shm object lies under the acting side's root and prefix.",
        "level_note": "trusted: seqx enumeration, the independent predicate; bounded as stated",
    },
    "C01": {
        "level": "exploration",
        "technique": "bounded-exhaustive enumeration of API call histories (all sequences up to a depth, then breadth-first over distinct reference-model states) over a covering array of QoS configurations against a delivery reference model; plus stateless model checking of a publisher thread against subscriber threads",
        "legs": [{"ws": "seq", "bin": "h_pubsub", "args": ["--prop", "C01"]}, {"ws": "mc", "bin": "h_pubsub_mt"}],
        "rule": "see coverage.legs[*].rule",
        "assumptions": ["configurations are a covering array (every pair of knob values, listed interacting groups in all combinations), not the full cross product", "sequential leg: 1-2 publishers, 1-2 subscribers, tree depth 4-6 quick / 5-8 thorough, frontier to depth 10 / 12; local service quick, ipc added in thorough", "thread leg: 1 publisher thread, 1-2 subscriber threads, local_threadsafe service, preemption bound 1 quick / 2 thorough", "the 'long random histories' clause of the quantifier is sampling and not part of this check"],
        "design_ref": "DESIGN.md §3.3, §3.1, §4 C01",
        "level_text": "Every history of create/drop publisher and subscriber, loan, write, send, receive, drop sample, update_connections up to the depth is executed on the real ports for each configuration of the covering array and compared after every call with a reference model of what each (publisher, subscriber) pair is entitled to: per-pair order, at most once, byte-identical payload and header, recipient counts, only the documented losses; frontier mode continues breadth-first from every distinct model state. A thread leg enumerates all schedules (preemption bound) of concurrent send/receive.",
        "level_note": "trusted: seqx/ixmc engines, the reference model (written from the documentation); bounded as stated",
    },
    "C02": {
        "level": "exploration",
        "technique": "same bounded-exhaustive history enumeration as C01 with the sample-lifetime oracles: every held sample and loan is re-read after every step, loan addresses are compared with all chunks that still have a holder, self-undoing loan probes count free chunks",
        "legs": [{"ws": "seq", "bin": "h_pubsub", "args": ["--prop", "C02"]}, {"ws": "seq", "bin": "h_reqres", "args": ["--prop", "C02"]}, {"ws": "seq", "bin": "h_alloc", "args": ["--prop", "C02"]}],
        "rule": "see coverage.legs[0].rule",
        "assumptions": ["as C01 (sequential leg)", "request/response payload lifetime: h_reqres leg (fixed-size payloads, static segments) and the request-response family of h_alloc (slice responses out of a dynamically growing server segment, two clients, one of which may vanish)"],
        "design_ref": "DESIGN.md §3.3, §4 C02",
        "level_text": "Over the same histories and configurations as C01: the bytes seen through every held sample, orphan sample and unsent loan are re-read after EVERY step and must never change; every new loan's chunk must not still have a holder in the model (sample, buffer entry, history slot, loan); after every step a self-undoing probe must obtain exactly max_loaned_samples minus outstanding loans; at the end of every history the publisher must again obtain its full number of loans. Request-response flavour with a dynamically growing response segment (h_alloc --prop C02): two clients, one may vanish; every response a client receives or holds carries exactly the written bytes, also after the other client vanished and the server cleaned up its connection.",
        "level_note": "trusted: seqx engine, the holder model; bounded as C01",
    },
    "C08": {
        "level": "exploration",
        "technique": "same bounded-exhaustive history enumeration with saturation macro-operations and one-too-many probes after every step; port, node and event-id limits of all four messaging patterns: all histories of create/drop port, open/drop handle by further nodes, notify with ids at the bound, against a counting model (h_limits)",
        "legs": [{"ws": "seq", "bin": "h_pubsub", "args": ["--prop", "C08"]}, {"ws": "seq", "bin": "h_reqres", "args": ["--prop", "C08"]}, {"ws": "seq", "bin": "h_limits"}, {"ws": "mc", "bin": "h_conn", "args": ["--prop", "C08", "--only", "data/"]}],
        "rule": "see coverage.legs[0].rule",
        "assumptions": ["'a release never fails for lack of queue space' under concurrency: the data cases of h_conn (E1: a sender thread against a receiver thread on the real zero-copy connection, every schedule within PB 2; the receiver's release must never return RetrieveBufferFull)", "publish-subscribe loan/borrow/buffer limits: h_pubsub leg; request-response limits: h_reqres leg; wait-set attachment limit: C20", "limit values 1..3 (0 where accepted)", "port, node and event-id limits (h_limits): limits in {1,2}, event_id_max_value in {0,1,2}, local service in the quick tier (tree depth 4 + frontier over all model states to depth 10), ipc added in the thorough tier; the creator's node counts towards max_nodes, a second handle of a registered node does not"],
        "design_ref": "DESIGN.md §3.3, §4 C08",
        "level_text": "Over all histories up to the depth, including macro operations that fill every subscriber buffer, borrow the maximum and take all loans: a loan never fails for lack of memory and a release never for lack of queue space; after every step every limit-exceeding call (one publisher, subscriber, loan, borrow, buffer or history request too many) must fail with its documented error, leave all observables unchanged (control run) and succeed again once capacity is freed. Port, node and event-id limits (all four messaging patterns, h_limits): every history of port creation / drop, of opening / dropping the service from further nodes and of notify with ids at the bound; one too many fails with the documented ExceedsMax... / EventIdOutOfBounds error, leaves port counts, node list, files and the live ports' data path unchanged, and succeeds after a drop.",
        "level_note": "trusted: seqx engine, the reference model; bounded as C01",
    },
    "C06": {
        "level": "model_checking",
        "technique": "stateless model checking of concurrent create/open/open_or_create/drop of one service by several nodes (threads) on the real service builder code; bounded-exhaustive single-thread histories and the full creator-settings x opener-requirements table (seqx leg); all single-preemption interleavings of two PROCESSES at system-call granularity under ptrace (ptx leg, ipc variant)",
        "legs": [{"ws": "mc", "bin": "h_service_mt"}, {"ws": "seq", "bin": "h_lifecycle", "args": ["--prop", "C06"]}, {"ws": "seq", "bin": "ptx", "args": ["--prop", "C06"]}],
        "rule": "one case = (messaging pattern: publish-subscribe | event | request-response | blackboard (creator/opener only), per-thread call: create(settings) | open | open_or_create(settings) | create-then-drop | open-then-drop); every schedule within the preemption bound is executed on the real code (local service: process-local storages, their pthread mutex and the clock under scheduler control); outcome = what every call returned",
        "assumptions": IXMC_ASSUME + ["thread leg: local::Service (process-local static/dynamic storages); process leg: ipc::Service (files + shared memory), two processes, the first one stopped before each visible system call of its service creation and of its service drop while the second runs one complete call (one preemption, system-call granularity; the first party's creation_timeout is 20 s so that time spent stopped is not counted against its retry budget, the second party's is 40 ms)", "scheduling points on locations that only one thread touches after the setup phase, or that nobody writes, are elided (learned set, iterated to a fixed point)"],
        "design_ref": "DESIGN.md §3.1, §4 C06",
        "level_text": "All schedules (preemption bound) of 2-3 nodes that create, open, open-or-create and drop the same service concurrently are executed on the real builder code: at most one creation succeeds, all live handles report the one configuration some creator asked for, every call returns a service or a documented contention error, the service exists while a handle lives, disappears with the last one and can then be created with other settings. Process leg (ptx --prop C06, ipc services): for every pair of (create | open_or_create) in one process and (create | open | open_or_create) in another, the first process is stopped before every visible system call of its creation and of its drop while the second runs its call; same oracles plus 'a granted handle can create a port' and 'nothing left in the domain'.",
        "level_note": "trusted: ixmc scheduler incl. mutex/clock model and the elision argument (DESIGN.md §3.1); bounded: 2-3 threads, one call each, PB 1 quick / 2 thorough; 2 processes, one preemption at system-call granularity",
    },
    "C11": {
        "level": "exploration",
        "technique": "bounded-exhaustive enumeration of request-response histories (all sequences up to a depth, then breadth-first over distinct reference-model states) over an orthogonal array of configurations against a per-request stream model",
        "legs": [{"ws": "seq", "bin": "h_reqres", "args": ["--prop", "C11"]}],
        "rule": "see coverage.legs[0].rule",
        "assumptions": ["request and response payloads are the fixed-size type [u64; 4]: the separate slice-payload impl blocks of the request-response ports ([T] payloads) are NOT driven by this check (open gap, seed C11d, DESIGN 9.7)", "single-threaded histories; 1-2 clients x 1-2 servers, max_active_requests 1..3, response buffer 1..2, overflow on/off for requests and responses, fire-and-forget on/off; local service quick, ipc added in thorough", "tree depth 5-7 quick / up to 9 thorough, frontier to depth 10 / 12", "ports use BackpressureStrategy::DiscardData (the default RetryUntilDelivered would spin in a single thread)"],
        "design_ref": "DESIGN.md §3.3, §4 C11",
        "level_text": "Every history of send/loan request, receive request, send/loan response, receive/release response, drop of pending response or active request, creation and drop of clients and servers up to the depth is executed on the real ports and compared after every call with a model of one response stream per (request, server): requests reach each connected server once and in order, responses arrive only through the pending response of their own request, in order, at most once; closing either end is observed by the other; nothing is delivered into a reused slot; limits hold.",
        "level_note": "trusted: seqx engine, the stream model (written from the documentation); bounded as stated",
    },
    "C17": {
        "level": "exploration",
        "technique": "exhaustive enumeration of all drop-order permutations of complete object graphs (node, service handle, ports, in-flight samples/requests/responses, wait set + guard) per messaging pattern and service variant, with survivor-usability checks after every drop and a leftover scan of an isolated domain",
        "legs": [{"ws": "seq", "bin": "h_lifecycle", "args": ["--prop", "C17"]}],
        "rule": "see coverage.legs[0].rule",
        "assumptions": ["graph sizes: 5 (ipc) / 6 (local) objects in quick, 6-8 in thorough; drop orders the borrow checker forbids (guard vs wait set / listener) are impossible for users and not offered", "one or two nodes sharing the service; variants ipc, local, ipc_threadsafe, local_threadsafe", "documented to persist per domain: the directories <root>/nodes and <root>/services and the global management segment"],
        "design_ref": "DESIGN.md §3.3, §4 C17",
        "level_text": "For every messaging pattern and service variant a complete object graph is built in an isolated domain and dropped in EVERY possible order; after each drop every object still alive performs its characteristic operation and must behave as the model says (and the service must exist exactly while something uses it); after the last drop the domain's directory and /dev/shm may contain only the documented persistent objects, and node and service can be re-created under the same names with other types and settings.",
        "level_note": "trusted: seqx engine; bounded as stated; blocking is detected by a 60 s watchdog",
    },
    "C20": {
        "level": "exploration",
        "technique": "bounded-exhaustive enumeration of wait-set histories (attach notification/deadline/interval, guard drop, notify, drain, zero-timeout processing, listener re-creation for descriptor reuse) on the epoll and the posix-select reactor against a model of pending events per attachment",
        "legs": [{"ws": "seq", "bin": "h_waitset"}],
        "rule": "see coverage.legs[0].rule",
        "assumptions": ["history depth 6 (local) / 4 (ipc) in quick, deeper in thorough; 1-4 listeners over 1-2 services", "deadlines and intervals use durations that never expire during an exhaustive run; expiry itself is exercised by two dedicated configurations with 1 ms timers and a 5 ms sleep (no virtual clock)", "the attachment capacity is the reactor's (FD_SETSIZE for posix-select, max_user_watches for epoll): 'one attachment too many' runs on the select variant only"],
        "design_ref": "DESIGN.md §3.3, §4 C20",
        "level_text": "Every history up to the depth is executed on the real WaitSet: each processing call must invoke the callback exactly for the attachments whose listener has undrained events (level triggered), once each, never for a dropped guard or a foreign object; what is drained must equal what was notified; a notify between or during processing calls is reported by the next one; attaching twice or beyond capacity is refused with the documented error and changes nothing; descriptor reuse after detach works. Expiry of deadlines and intervals is part of the enumerated alphabet through a virtual clock (operation Advance): a timer is reported iff one of its period boundaries passed since the previous processing call, a deadline whose listener has an event pending starts anew.",
        "level_note": "trusted: seqx engine, the event model; bounded as stated",
    },
}
